(* C14: a token lattice survives YY serialisation and parsing unchanged. *)
From Coq Require Import List NArith ZArith Bool Arith Lia.
From PyD Require Import Base.Str Base.Dec Model.SExpr Proofs.SExprP Model.YY.
Import ListNotations.
Open Scope nat_scope.

Definition nondigit_head (r : str) : Prop :=
  match r with c :: _ => is_digit c = false | [] => True end.
Definition nonws_head (r : str) : Prop :=
  match r with c :: _ => is_ws c = false | [] => True end.

Lemma yy_escape_eq s : yy_escape s = esc_string s.
Proof. reflexivity. Qed.

Lemma unescape_yy s : unescape_string (yy_escape s) = s.
Proof. rewrite yy_escape_eq. apply unescape_esc. Qed.

Lemma lstrip_nonws r : nonws_head r -> lstrip_ws r = r.
Proof. destruct r as [|c r]; [reflexivity|]. cbn. intros ->. reflexivity. Qed.

(* ---------------------------------------------------------------- integers *)

Lemma scan_int_dec z rest : nondigit_head rest ->
  scan_int (Z_to_dec z ++ rest) = Some (Z_to_dec z, rest).
Proof.
  intros Hr. destruct (Z_to_dec_shape z) as (c & ds & E & Hds & [Hc | (Ec45 & d & ds' & Eds)]); rewrite E.
  2: subst c ds.
  - unfold scan_int. cbn [app].
    assert (Ec : (c =? 45)%N = false).
    { unfold is_digit in Hc. destruct (N.eqb_spec c 45) as [->|]; [discriminate|reflexivity]. }
    rewrite Ec.
    assert (Es : span_digits (c :: ds ++ rest) = (c :: ds, rest)).
    { apply (span_digits_app (c :: ds) rest); [cbn [forallb]; rewrite Hc; exact Hds | exact Hr]. }
    rewrite Es. reflexivity.
  - unfold scan_int. cbn [app]. change ((45 =? 45)%N) with true. cbv iota.
    assert (Es : span_digits ((d :: ds') ++ rest) = (d :: ds', rest)) by (apply span_digits_app; assumption).
    cbn [app] in Es. rewrite Es. reflexivity.
Qed.

Lemma dec_head z : exists c r, Z_to_dec z = c :: r /\ is_ws c = false /\ (c =? 60)%N = false /\ (c =? DQ)%N = false.
Proof.
  destruct (Z_to_dec_shape z) as (c & ds & E & _ & [Hc | (Ec45 & _)]); exists c, ds; (split; [exact E|]).
  2: subst c.
  - unfold is_digit in Hc. unfold is_ws, DQ.
    assert (48 <= c <= 57)%N by (apply andb_prop in Hc; destruct Hc as [H1 H2]; apply N.leb_le in H1, H2; lia).
    repeat split.
    + destruct (N.eqb_spec c 32); [lia|]. destruct (N.leb_spec 9 c), (N.leb_spec c 13), (N.leb_spec 28 c), (N.leb_spec c 31);
        cbn; try reflexivity; lia.
    + destruct (N.eqb_spec c 60); [lia | reflexivity].
    + destruct (N.eqb_spec c 34); [lia | reflexivity].
  - repeat split.
Qed.

Lemma scan_comma_cs rest : nonws_head rest -> scan_comma (CS ++ rest) = Some rest.
Proof.
  intros H. unfold scan_comma, CS. cbn [app].
  change (lstrip_ws (44%N :: 32%N :: rest)) with (44%N :: 32%N :: rest). cbv iota beta.
  change ((44 =? 44)%N) with true. cbv iota.
  change (lstrip_ws (32%N :: rest)) with (lstrip_ws rest).
  rewrite lstrip_nonws by exact H. reflexivity.
Qed.

(* ---------------------------------------------------------------- strings *)

Lemma scan_qbody_esc s : forall fuel acc rest, length (yy_escape s) < fuel ->
  scan_qbody fuel (yy_escape s ++ DQ :: rest) acc = Some (List.rev acc ++ yy_escape s, rest).
Proof.
  induction s as [|c s IH]; intros fuel acc rest Hf.
  - destruct fuel as [|f]; [simpl in Hf; lia|]. cbn [yy_escape flat_map app scan_qbody].
    change (N.eqb DQ DQ) with true. cbv iota. rewrite app_nil_r. reflexivity.
  - cbn [yy_escape flat_map] in *. fold (yy_escape s) in *.
    destruct (N.eqb c DQ || N.eqb c BS)%bool eqn:E.
    + change ([BS; c] ++ yy_escape s) with (BS :: c :: yy_escape s) in *. cbn [length] in Hf.
      destruct fuel as [|f]; [lia|]. rewrite <- !app_comm_cons. cbn [scan_qbody].
      change (N.eqb BS DQ) with false. change (N.eqb BS BS) with true. cbv iota.
      assert (E10 : (c =? 10)%N = false).
      { apply orb_prop in E. destruct E as [E | E]; apply N.eqb_eq in E; subst c; reflexivity. }
      rewrite E10. rewrite IH by lia. cbn [List.rev]. rewrite <- !app_assoc. reflexivity.
    + change ([c] ++ yy_escape s) with (c :: yy_escape s) in *. cbn [length] in Hf.
      destruct fuel as [|f]; [lia|]. rewrite <- !app_comm_cons. cbn [scan_qbody].
      apply orb_false_iff in E. destruct E as [E1 E2]. rewrite E1, E2.
      rewrite IH by lia. cbn [List.rev]. rewrite <- !app_assoc. reflexivity.
Qed.

Lemma scan_quoted_q s rest : scan_quoted (quoted s ++ rest) = Some (yy_escape s, rest).
Proof.
  unfold scan_quoted, quoted. rewrite <- app_comm_cons. change (N.eqb DQ DQ) with true. cbv iota.
  rewrite <- app_assoc. cbn [app]. rewrite scan_qbody_esc; [reflexivity|].
  rewrite app_length. cbn [length]. lia.
Qed.

Lemma scan_quoted_none c r : (c =? DQ)%N = false -> scan_quoted (c :: r) = None.
Proof. intros H. cbn [scan_quoted]. rewrite H. reflexivity. Qed.

(* ---------------------------------------------------------------- lists of integers and strings *)

Lemma join_sp_cons2 (x y : str) r : join_sp (x :: y :: r) = x ++ 32%N :: join_sp (y :: r).
Proof. reflexivity. Qed.

Lemma scan_int_none c r : is_digit c = false -> (c =? 45)%N = false -> scan_int (c :: r) = None.
Proof. intros Hd H45. unfold scan_int. rewrite H45. cbn [span_digits]. rewrite Hd. reflexivity. Qed.

Lemma scan_paths_stop f rest : scan_paths f (44%N :: rest) = ([], false, 44%N :: rest).
Proof. destruct f as [|f]; [reflexivity|]. cbn [scan_paths]. rewrite scan_int_none by reflexivity. reflexivity. Qed.

Lemma dec_nonws z r : nonws_head (Z_to_dec z ++ r).
Proof. destruct (dec_head z) as (c & t & -> & H & _). exact H. Qed.

Lemma scan_paths_print ps : ps <> [] -> forall fuel rest, length ps < fuel ->
  scan_paths fuel (join_sp (map Z_to_dec ps) ++ 44%N :: rest) = (map Z_to_dec ps, false, 44%N :: rest).
Proof.
  induction ps as [|p [|q ps] IH]; intros Hne fuel rest Hf; [congruence| |].
  - destruct fuel as [|f]; [cbn in Hf; lia|]. cbn [map join_sp scan_paths].
    rewrite scan_int_dec by reflexivity.
    change (lstrip_ws (44%N :: rest)) with (44%N :: rest). rewrite scan_paths_stop.
    rewrite andb_false_r. reflexivity.
  - destruct fuel as [|f]; [cbn in Hf; lia|]. cbn [map]. rewrite join_sp_cons2.
    rewrite <- app_assoc. rewrite <- app_comm_cons. cbn [scan_paths].
    rewrite scan_int_dec by reflexivity.
    change (lstrip_ws (32%N :: ?x)) with (lstrip_ws x).
    set (X := join_sp (Z_to_dec q :: map Z_to_dec ps) ++ 44%N :: rest).
    change (lstrip_ws (32%N :: X)) with (lstrip_ws X).
    assert (HX : lstrip_ws X = X).
    { apply lstrip_nonws. unfold X. destruct ps as [|q2 ps]; [cbn [map join_sp]|cbn [map]; rewrite join_sp_cons2, <- app_assoc];
        apply dec_nonws. }
    rewrite HX. unfold X. change (Z_to_dec q :: map Z_to_dec ps) with (map Z_to_dec (q :: ps)).
    rewrite IH by (try congruence; cbn [length] in *; lia).
    cbn [length]. rewrite Nat.eqb_sym.
    replace (S (length (join_sp (map Z_to_dec (q :: ps)) ++ 44%N :: rest)) =? length (join_sp (map Z_to_dec (q :: ps)) ++ 44%N :: rest))
      with false by (symmetry; apply Nat.eqb_neq; lia).
    reflexivity.
Qed.

Lemma scan_strs_stop f rest : scan_strs f (41%N :: rest) = (0, 41%N :: rest).
Proof. destruct f as [|f]; reflexivity. Qed.

Lemma quoted_nonws s r : nonws_head (quoted s ++ r).
Proof. reflexivity. Qed.

Lemma scan_strs_print ls : ls <> [] -> forall fuel rest, length ls < fuel ->
  scan_strs fuel (join_sp (map quoted ls) ++ 41%N :: rest) = (length ls, 41%N :: rest).
Proof.
  induction ls as [|p [|q ls] IH]; intros Hne fuel rest Hf; [congruence| |].
  - destruct fuel as [|f]; [cbn in Hf; lia|]. cbn [map join_sp scan_strs].
    rewrite scan_quoted_q. change (lstrip_ws (41%N :: rest)) with (41%N :: rest).
    rewrite scan_strs_stop. reflexivity.
  - destruct fuel as [|f]; [cbn in Hf; lia|]. cbn [map]. rewrite join_sp_cons2.
    rewrite <- app_assoc. rewrite <- app_comm_cons. cbn [scan_strs].
    rewrite scan_quoted_q.
    set (X := join_sp (quoted q :: map quoted ls) ++ 41%N :: rest).
    change (lstrip_ws (32%N :: X)) with (lstrip_ws X).
    assert (HX : lstrip_ws X = X).
    { apply lstrip_nonws. unfold X. destruct ls as [|q2 ls]; [cbn [map join_sp]|cbn [map]; rewrite join_sp_cons2, <- app_assoc];
        apply quoted_nonws. }
    rewrite HX. unfold X. change (quoted q :: map quoted ls) with (map quoted (q :: ls)).
    rewrite IH by (try congruence; cbn [length] in *; lia). reflexivity.
Qed.

(* ---------------------------------------------------------------- str.split *)

Definition nows (s : str) : Prop := forallb (fun c => negb (is_ws c)) s = true.

Lemma split_ws_word w : forall cur r, nows w -> split_ws (w ++ r) cur = split_ws r (List.rev w ++ cur).
Proof.
  unfold nows. induction w as [|c w IH]; intros cur r H; [reflexivity|].
  cbn [forallb] in H. apply andb_prop in H. destruct H as [Hc Hw].
  cbn [app split_ws]. apply negb_true_iff in Hc. rewrite Hc. rewrite IH by exact Hw.
  cbn [List.rev]. rewrite <- app_assoc. reflexivity.
Qed.

Lemma split_ws_join ws : Forall (fun w => nows w /\ w <> []) ws -> split_ws (join_sp ws) [] = ws.
Proof.
  induction ws as [|w [|v ws] IH]; intros H; [reflexivity| |].
  - inversion H as [|? ? [Hw Hn] _]; subst. cbn [join_sp].
    rewrite <- (app_nil_r w) at 1. rewrite split_ws_word by exact Hw. cbn [split_ws]. rewrite app_nil_r.
    destruct (List.rev w) eqn:E.
    + exfalso. apply Hn. rewrite <- (rev_involutive w), E. reflexivity.
    + rewrite <- E, rev_involutive. reflexivity.
  - inversion H as [|? ? [Hw Hn] Hrest]; subst. rewrite join_sp_cons2.
    rewrite split_ws_word by exact Hw. cbn [split_ws]. change (is_ws 32) with true. cbv iota.
    rewrite app_nil_r.
    destruct (List.rev w) eqn:E.
    + exfalso. apply Hn. rewrite <- (rev_involutive w), E. reflexivity.
    + rewrite <- E, rev_involutive. rewrite IH by exact Hrest. reflexivity.
Qed.

Lemma nows_escape s : nows s -> nows (yy_escape s).
Proof.
  unfold nows. induction s as [|c s IH]; intros H; [reflexivity|].
  cbn [forallb] in H. apply andb_prop in H. destruct H as [Hc Hs].
  cbn [yy_escape flat_map]. fold (yy_escape s). rewrite forallb_app, IH by exact Hs.
  destruct ((c =? DQ)%N || (c =? BS)%N)%bool; cbn [forallb]; rewrite Hc; reflexivity.
Qed.

Lemma nows_quoted s : nows s -> nows (quoted s) /\ quoted s <> [].
Proof.
  intros H. split; [|discriminate]. unfold nows, quoted. cbn [forallb].
  rewrite forallb_app, (nows_escape _ H). reflexivity.
Qed.

Lemma qstrip_quoted s : qstrip (quoted s) = yy_escape s.
Proof. unfold qstrip, quoted. cbn [tl]. apply removelast_last. Qed.

(* ---------------------------------------------------------------- one token *)

Definition wf_tok (t : yytok) : Prop :=
  y_paths t <> [] /\ y_lrules t <> [] /\ y_lnk t <> Some ((-1)%Z, (-1)%Z) /\ Forall nows (y_lrules t).

Lemma scan_comma_lit rest : nonws_head rest -> scan_comma (44%N :: 32%N :: rest) = Some rest.
Proof. exact (scan_comma_cs rest). Qed.

Lemma firstn_app_exact {A} (a b : list A) : firstn (length a) (a ++ b) = a.
Proof. induction a as [|x a IH]; [reflexivity|]. cbn. rewrite IH. reflexivity. Qed.

Lemma dec_len z : 1 <= length (Z_to_dec z).
Proof. destruct (dec_head z) as (c & r & -> & _). cbn. lia. Qed.

Lemma join_sp_len_ge (l : list str) : Forall (fun x => 1 <= length x) l -> length l <= length (join_sp l).
Proof.
  induction l as [|x [|y l] IH]; intros H; [cbn; lia| |].
  - inversion H; subst. cbn. lia.
  - inversion H as [|? ? Hx Hr]; subst. rewrite join_sp_cons2, app_length. cbn [length] in *.
    specialize (IH Hr). lia.
Qed.

Lemma ints_of_dec ps : ints_of (map Z_to_dec ps) = Some ps.
Proof. induction ps as [|p ps IH]; [reflexivity|]. cbn [map ints_of]. rewrite dec_to_Z_to_dec, IH. reflexivity. Qed.

Lemma scan_lnk_none r : match r with c :: _ => (c =? 60)%N = false | [] => True end ->
  scan_lnk r = Some (None, r).
Proof. destruct r as [|c r]; [reflexivity|]. intros H. cbn [scan_lnk]. rewrite H. reflexivity. Qed.

Lemma scan_lnk_some a b rest : nonws_head rest ->
  scan_lnk (60%N :: Z_to_dec a ++ 58%N :: Z_to_dec b ++ 62%N :: 44%N :: 32%N :: rest)
  = Some (Some (Z_to_dec a, Z_to_dec b), rest).
Proof.
  intros H. cbn [scan_lnk]. change ((60 =? 60)%N) with true. cbv iota.
  rewrite scan_int_dec by reflexivity. change ((58 =? 58)%N) with true. cbv iota.
  rewrite scan_int_dec by reflexivity. change ((62 =? 62)%N) with true. cbv iota.
  rewrite scan_comma_lit by exact H. reflexivity.
Qed.

Lemma map_unescape_escape l : map unescape_string (map yy_escape l) = l.
Proof. rewrite map_map. rewrite <- (map_id l) at 2. apply map_ext. intros s. apply unescape_yy. Qed.

Lemma map_dec_match {A} (x y : A) ps : ps <> [] ->
  match map Z_to_dec ps with [] => x | _ :: _ => y end = y.
Proof. destruct ps; [congruence | reflexivity]. Qed.

Lemma scan_tok_print t rest : wf_tok t ->
  exists body, print_tok t = 40%N :: body /\ scan_tok (body ++ rest) = TTok t rest.
Proof.
  destruct t as [id st en lnk ps form surf ipos lrs]. unfold wf_tok.
  cbn [y_paths y_lrules y_lnk]. intros (Hps & Hlrs & Hlnk & Hnows).
  unfold print_tok. cbn [y_id y_start y_end y_lnk y_paths y_form y_surface y_ipos y_lrules].
  eexists. split; [reflexivity|].
  assert (Eps : forall l : list Z, l <> [] -> match l with [] => [1%Z] | z :: l0 => z :: l0 end = l)
    by (intros [|? ?]; congruence).
  rewrite (Eps ps Hps). clear Eps.
  unfold CS. rewrite <- !app_assoc. cbn [app].
  unfold scan_tok.
  rewrite lstrip_nonws by apply dec_nonws.
  rewrite scan_int_dec by reflexivity. rewrite scan_comma_lit by apply dec_nonws.
  rewrite scan_int_dec by reflexivity. rewrite scan_comma_lit by apply dec_nonws.
  rewrite scan_int_dec by reflexivity.
  (* the text from the paths on *)
  set (TAIL := join_sp (map Z_to_dec ps) ++ 44%N :: 32%N :: quoted form ++
               match surf with Some s => 32%N :: quoted s | None => [] end ++
               44%N :: 32%N :: Z_to_dec ipos ++ 44%N :: 32%N :: join_sp (map quoted lrs) ++ 41%N :: rest).
  assert (Htail : nonws_head TAIL /\ match TAIL with c :: _ => (c =? 60)%N = false | [] => True end).
  { unfold TAIL. destruct ps as [|p [|q ps]]; [congruence| |].
    - cbn [map join_sp]. destruct (dec_head p) as (c & r & -> & H1 & H2 & _). split; assumption.
    - cbn [map]. rewrite join_sp_cons2. destruct (dec_head p) as (c & r & -> & H1 & H2 & _). split; assumption. }
  destruct Htail as [Hws H60].
  assert (Elnk : exists lk, scan_comma (print_lnk lnk ++ TAIL) = scan_comma (print_lnk lnk ++ TAIL) /\
            (forall r0, (r0 = 44%N :: 32%N :: print_lnk lnk ++ TAIL) ->
               match scan_comma r0 with
               | Some r => scan_lnk r = Some (lk, TAIL)
               | None => False
               end) /\
            match lk with
            | Some (a, b) => match dec_to_Z a, dec_to_Z b with Some x, Some y => Some (Some (x, y)) | _, _ => None end
            | None => Some None
            end = Some lnk).
  { destruct lnk as [[a b]|].
    - unfold print_lnk. destruct ((a =? -1)%Z && (b =? -1)%Z)%bool eqn:E.
      + exfalso. apply Hlnk. apply andb_prop in E. destruct E as [E1 E2].
        apply Z.eqb_eq in E1, E2. subst. reflexivity.
      + exists (Some (Z_to_dec a, Z_to_dec b)). split; [reflexivity|]. split.
        * intros r0 ->. unfold CS. rewrite <- !app_assoc. cbn [app].
          rewrite scan_comma_lit by reflexivity. apply scan_lnk_some. exact Hws.
        * rewrite !dec_to_Z_to_dec. reflexivity.
    - exists None. split; [reflexivity|]. split; [|reflexivity].
      intros r0 ->. cbn [print_lnk app]. rewrite scan_comma_lit by exact Hws. apply scan_lnk_none. exact H60. }
  destruct Elnk as (lk & _ & Hscan & Hlk).
  match goal with |- context [scan_comma ?r0] =>
    match r0 with 44%N :: 32%N :: print_lnk lnk ++ _ =>
      specialize (Hscan r0); fold TAIL in Hscan; specialize (Hscan eq_refl);
      fold TAIL; destruct (scan_comma r0) as [r1|] eqn:Ecomma; [|contradiction]
    end
  end.
  rewrite Hscan. clear Hscan Ecomma r1.
  (* paths *)
  unfold TAIL at 1 2.
  rewrite scan_paths_print.
  2: exact Hps.
  2: { rewrite app_length. pose proof (join_sp_len_ge (map Z_to_dec ps)) as HL.
       rewrite map_length in HL. assert (Forall (fun x => 1 <= length x) (map Z_to_dec ps)).
       { apply Forall_forall. intros x Hx. apply in_map_iff in Hx. destruct Hx as (z & <- & _). apply dec_len. }
       specialize (HL H). lia. }
  rewrite (map_dec_match TNo) by exact Hps.
  rewrite scan_comma_lit by apply quoted_nonws.
  rewrite scan_quoted_q.
  (* surface *)
  assert (Esurf : scan_surface (match surf with Some s => 32%N :: quoted s | None => [] end ++
                    44%N :: 32%N :: Z_to_dec ipos ++ 44%N :: 32%N :: join_sp (map quoted lrs) ++ 41%N :: rest)
            = (option_map yy_escape surf,
               44%N :: 32%N :: Z_to_dec ipos ++ 44%N :: 32%N :: join_sp (map quoted lrs) ++ 41%N :: rest)).
  { unfold scan_surface. destruct surf as [s|].
    - rewrite <- app_comm_cons.
      change (lstrip_ws (32%N :: ?x)) with (lstrip_ws x).
      rewrite lstrip_nonws by apply quoted_nonws. rewrite scan_quoted_q. reflexivity.
    - cbn [app]. change (lstrip_ws (44%N :: ?x)) with (44%N :: x).
      rewrite scan_quoted_none by reflexivity. reflexivity. }
  rewrite Esurf. clear Esurf.
  rewrite scan_comma_lit by apply dec_nonws.
  rewrite scan_int_dec by reflexivity.
  rewrite scan_comma_lit.
  2: { destruct lrs as [|l [|l2 lrs]]; [congruence| cbn [map join_sp] | cbn [map]; rewrite join_sp_cons2 ]; reflexivity. }
  (* lexical rules *)
  rewrite scan_strs_print.
  2: exact Hlrs.
  2: { rewrite app_length. pose proof (join_sp_len_ge (map quoted lrs)) as HL.
       rewrite map_length in HL. assert (Forall (fun x => 1 <= length x) (map quoted lrs)).
       { apply Forall_forall. intros x Hx. apply in_map_iff in Hx. destruct Hx as (z & <- & _). cbn. lia. }
       specialize (HL H). lia. }
  replace (length (join_sp (map quoted lrs) ++ 41%N :: rest) - length (41%N :: rest))
    with (length (join_sp (map quoted lrs))) by (rewrite app_length; lia).
  rewrite firstn_app_exact.
  rewrite split_ws_join.
  2: { apply Forall_forall. intros x Hx. apply in_map_iff in Hx. destruct Hx as (z & <- & Hz).
       apply nows_quoted. rewrite Forall_forall in Hnows. apply Hnows. exact Hz. }
  destruct (length lrs) eqn:Elen; [destruct lrs; [congruence | discriminate]|].
  change (lstrip_ws (41%N :: rest)) with (41%N :: rest). cbv iota beta.
  change ((41 =? 41)%N) with true. cbv iota.
  rewrite !dec_to_Z_to_dec, ints_of_dec, Hlk.
  rewrite unescape_yy.
  rewrite map_map.
  assert (El : map (fun x => unescape_string (qstrip (quoted x))) lrs = lrs).
  { rewrite <- (map_id lrs) at 2. apply map_ext. intros s. rewrite qstrip_quoted. apply unescape_yy. }
  rewrite map_map, El.
  destruct surf as [s|]; cbn [option_map]; rewrite ?unescape_yy; reflexivity.
Qed.

(* ---------------------------------------------------------------- the lattice *)

Lemma scan_all_nil f : scan_all f [] = YOk [].
Proof. destruct f; reflexivity. Qed.

Lemma scan_all_print toks : Forall wf_tok toks -> forall fuel, length (print_lattice toks) < fuel ->
  scan_all fuel (print_lattice toks) = YOk toks.
Proof.
  unfold print_lattice.
  induction toks as [|t [|u toks] IH]; intros Hwf fuel Hf.
  - apply scan_all_nil.
  - inversion Hwf as [|? ? Ht _]; subst. cbn [map join_sp] in *.
    destruct (scan_tok_print t [] Ht) as (body & Eb & Es). rewrite app_nil_r in Es.
    rewrite Eb in *. destruct fuel as [|f]; [cbn in Hf; lia|].
    cbn [scan_all]. change ((40 =? 40)%N) with true. cbv iota. rewrite Es, scan_all_nil. reflexivity.
  - inversion Hwf as [|? ? Ht Hrest]; subst. cbn [map] in *. rewrite join_sp_cons2 in *.
    set (PL := join_sp (print_tok u :: map print_tok toks)) in *.
    destruct (scan_tok_print t (32%N :: PL) Ht) as (body & Eb & Es).
    rewrite Eb in *. rewrite <- app_comm_cons in *. cbn [length] in Hf. rewrite app_length in Hf. cbn [length] in Hf.
    destruct fuel as [|f]; [lia|].
    cbn [scan_all]. change ((40 =? 40)%N) with true. cbv iota. rewrite Es.
    destruct f as [|f']; [lia|]. cbn [scan_all]. change ((32 =? 40)%N) with false. cbv iota.
    unfold PL. change (print_tok u :: map print_tok toks) with (map print_tok (u :: toks)).
    rewrite IH; [reflexivity | exact Hrest |].
    unfold PL in *. cbn [map]. lia.
Qed.

(* a token lattice survives YY serialisation and parsing unchanged *)
Theorem parse_print_lattice toks : Forall wf_tok toks -> parse_lattice (print_lattice toks) = YOk toks.
Proof. intros H. unfold parse_lattice. apply scan_all_print; [exact H | lia]. Qed.

(* what REPP's tokenizer produces: identifiers and vertices counted from zero, a character
   span, path 1, no surface form, the lexical rule null *)
Definition NULL : str := [110; 117; 108; 108]%N.
Definition repp_tok (i : Z) (a b : Z) (form : str) : yytok :=
  {| y_id := i; y_start := i; y_end := (i + 1)%Z; y_lnk := Some (a, b); y_paths := [1%Z];
     y_form := form; y_surface := None; y_ipos := 0%Z; y_lrules := [NULL] |}.

Lemma repp_tok_wf i a b form : (0 <= a)%Z -> wf_tok (repp_tok i a b form).
Proof.
  intros Ha. unfold wf_tok, repp_tok. cbn. repeat split; try discriminate.
  - intros E. injection E as E1 _. lia.
  - constructor; [reflexivity | constructor].
Qed.

(* any forms at all - quotes, backslashes, parentheses, commas - with spans inside a text *)
Definition mk_repp (x : Z * Z * Z * str) : yytok :=
  repp_tok (fst (fst (fst x))) (snd (fst (fst x))) (snd (fst x)) (snd x).

Theorem repp_lattice_roundtrip (l : list (Z * Z * Z * str)) :
  Forall (fun x => (0 <= snd (fst (fst x)))%Z) l ->
  parse_lattice (print_lattice (map mk_repp l)) = YOk (map mk_repp l).
Proof.
  intros H. apply parse_print_lattice. apply Forall_forall. intros t Ht.
  apply in_map_iff in Ht. destruct Ht as (x & <- & Hx). apply repp_tok_wf.
  rewrite Forall_forall in H. apply H. exact Hx.
Qed.

Example lattice_with_quotes :
  let t := repp_tok 1 4 8 [34; 104; 105; 92; 34]%N in      (* the form: quote h i backslash quote *)
  wf_tok t /\ parse_lattice (print_lattice [repp_tok 0 0 3 [115; 97; 121]%N; t]) = YOk [repp_tok 0 0 3 [115; 97; 121]%N; t].
Proof. cbv zeta. split; [apply repp_tok_wf; lia | vm_compute; reflexivity]. Qed.
