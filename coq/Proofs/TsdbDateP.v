(* C08, dates: casting the formatted form of a date-time returns it, and every
   documented spelling of an instant denotes that instant. *)
From Coq Require Import List NArith ZArith Bool Lia ZifyBool ZifyN.
From PyD Require Import Base.Str Model.TsdbDate.
Import ListNotations.
Open Scope N_scope.
Ltac Zify.zify_post_hook ::= Z.to_euclidean_division_equations.

(* ---------------------------------------------------------------- characters *)

Definition isal (c : N) : bool := ((65 <=? c) && (c <=? 90)) || ((97 <=? c) && (c <=? 122)).

Lemma isd_facts c : isd c = true ->
  (c =? 45) = false /\ (c =? 58) = false /\ iss c = false /\ isw c = true /\ (c =? 40) = false
  /\ (58 =? c) = false /\ (116 =? c) = false /\ (110 =? c) = false.
Proof. unfold isw, iss, isd, DASH, COLON. intros H. repeat split; lia. Qed.

Lemma isal_facts c : isal c = true ->
  isd c = false /\ isw c = true /\ (c =? 45) = false /\ (c =? 58) = false.
Proof. unfold isw, isal, isd, DASH, COLON. intros H. repeat split; lia. Qed.

Lemma isd_dig n : n < 10 -> isd (dig n) = true.
Proof. unfold isd, dig. lia. Qed.

Lemma dig_val n : n < 10 -> dig n - 48 = n.
Proof. unfold dig. lia. Qed.

Definition digits (s : str) : Prop := forallb isd s = true.

(* the tail after a date: nothing, white space or an opening parenthesis *)
Definition tail_ok (t : str) : Prop :=
  match t with [] => True | c :: _ => iss c = true \/ c = 40 end.

Lemma tail_ok_facts c t : tail_ok (c :: t) ->
  isd c = false /\ (c =? 45) = false /\ isw c = false.
Proof.
  cbn. unfold isw, iss, isd, DASH. intros [H | ->]; [|cbn; auto]. repeat split; lia.
Qed.

(* ---------------------------------------------------------------- spellings of the parts *)

(* one or two digits with the given value *)
Definition dspell (s : str) (v : N) : Prop :=
  digits s /\ (length s = 1 \/ length s = 2)%nat /\ num s = v.

(* a month: one or two digits, or three letters naming it in any letter case *)
Definition mspell (s : str) (mo : N) : Prop :=
  dspell s mo \/ (length s = 3%nat /\ month_of_name s = Some mo).

(* four digits *)
Definition y4spell (s : str) (y : N) : Prop := digits s /\ length s = 4%nat /\ num s = y.

(* a year: four digits, or the last two digits of a year from 1993 to 2092 *)
Definition yspell (s : str) (y : N) : Prop :=
  y4spell s y \/ (digits s /\ length s = 2%nat /\ 1993 <= y <= 2092 /\ num s = y mod 100).

Lemma lower_inv c k : lower c = k -> (97 <=? k) && (k <=? 122) = true -> isal c = true.
Proof. unfold lower, isal. intros H1 H2. destruct ((65 <=? c) && (c <=? 90)) eqn:E; lia. Qed.

Lemma month_name_letters a b c mo : month_of_name [a; b; c] = Some mo ->
  isal a = true /\ isal b = true /\ isal c = true.
Proof.
  unfold month_of_name, MONTH_NAMES. cbn [map index_of].
  repeat match goal with
  | |- context [str_eqb ?x ?y] =>
      let E := fresh "E" in
      destruct (str_eqb x y) eqn:E;
      [ apply str_eqb_spec in E; injection E as E1 E2 E3;
        intros _; repeat split; eapply lower_inv; try eassumption; reflexivity | clear E ]
  end.
  discriminate.
Qed.

Lemma month_not_now a b c mo r : month_of_name [a; b; c] = Some mo ->
  is_now (a :: b :: c :: r) = false.
Proof.
  intros H. destruct (month_name_letters _ _ _ _ H) as (Ha & _ & _).
  unfold is_now, COLON. destruct (isal_facts _ Ha) as (_ & _ & _ & Hc). rewrite Hc.
  unfold TODAY, NOW. cbn [starts_with].
  destruct (N.eqb_spec 116 a) as [<-|_]; cbn [andb].
  - destruct (N.eqb_spec 111 b) as [<-|_]; cbn [andb]; [|reflexivity].
    destruct (N.eqb_spec 100 c) as [<-|_]; cbn [andb]; [|reflexivity].
    exfalso. vm_compute in H. discriminate.
  - destruct (N.eqb_spec 110 a) as [<-|_]; cbn [andb]; [|reflexivity].
    destruct (N.eqb_spec 111 b) as [<-|_]; cbn [andb]; [|reflexivity].
    destruct (N.eqb_spec 119 c) as [<-|_]; cbn [andb]; [|reflexivity].
    exfalso. vm_compute in H. discriminate.
Qed.

Lemma digit_not_now a r : isd a = true -> is_now (a :: r) = false.
Proof.
  intros H. destruct (isd_facts _ H) as (_ & _ & _ & _ & _ & H58 & H116 & H110).
  unfold is_now, COLON. destruct (isd_facts _ H) as (_ & Hc & _). rewrite Hc. unfold TODAY, NOW. cbn [starts_with]. rewrite H116, H110. reflexivity.
Qed.

(* ---------------------------------------------------------------- shapes *)

Lemma digits1 s : digits s -> length s = 1%nat -> exists a, s = [a] /\ isd a = true.
Proof.
  destruct s as [|a [|b s]]; try discriminate. unfold digits; cbn. rewrite andb_true_r. eauto.
Qed.

Lemma digits2 s : digits s -> length s = 2%nat -> exists a b, s = [a; b] /\ isd a = true /\ isd b = true.
Proof.
  destruct s as [|a [|b [|c s]]]; try discriminate. unfold digits; cbn. rewrite andb_true_r.
  intros H _. apply andb_prop in H. destruct H. eauto 6.
Qed.

Lemma digits4 s : digits s -> length s = 4%nat ->
  exists a b c e, s = [a; b; c; e] /\ isd a = true /\ isd b = true /\ isd c = true /\ isd e = true.
Proof.
  destruct s as [|a [|b [|c [|e [|f s]]]]]; try discriminate. unfold digits; cbn. rewrite andb_true_r.
  intros H _. apply andb_prop in H. destruct H as [H1 H]. apply andb_prop in H. destruct H as [H2 H].
  apply andb_prop in H. destruct H as [H3 H4]. exists a, b, c, e. auto.
Qed.

Lemma letters3 s mo : length s = 3%nat -> month_of_name s = Some mo ->
  exists a b c, s = [a; b; c] /\ isal a = true /\ isal b = true /\ isal c = true.
Proof.
  destruct s as [|a [|b [|c [|e s]]]]; try discriminate. intros _ H.
  destruct (month_name_letters _ _ _ _ H) as (?&?&?). eauto 8.
Qed.

(* add the classification facts of every character variable to the context *)
Ltac facts :=
  unfold DASH, COLON in *;
  repeat match goal with
  | H : isd ?c = true |- _ =>
      lazymatch goal with
      | _ : (c =? 45) = false |- _ => fail
      | _ => destruct (isd_facts _ H) as (?&?&?&?&?&?&?&?)
      end
  | H : isal ?c = true |- _ =>
      lazymatch goal with
      | _ : (c =? 45) = false |- _ => fail
      | _ => destruct (isal_facts _ H) as (?&?&?&?)
      end
  | H : tail_ok (?c :: _) |- _ =>
      lazymatch goal with
      | _ : (c =? 45) = false |- _ => fail
      | _ => destruct (tail_ok_facts _ _ H) as (?&?&?)
      end
  end;
  unfold DASH, COLON in *.

Ltac hyp_rw :=
  match goal with
  | H : ?x = true |- context [?x] => rewrite H
  | H : ?x = false |- context [?x] => rewrite H
  end.

Ltac lit :=
  match goal with
  | |- context [isd (N.pos ?p)] =>
      let v := eval vm_compute in (isd (N.pos p)) in change (isd (N.pos p)) with v
  | |- context [isw (N.pos ?p)] =>
      let v := eval vm_compute in (isw (N.pos p)) in change (isw (N.pos p)) with v
  | |- context [iss (N.pos ?p)] =>
      let v := eval vm_compute in (iss (N.pos p)) in change (iss (N.pos p)) with v
  | |- context [N.eqb (N.pos ?p) (N.pos ?q)] =>
      let v := eval vm_compute in (N.eqb (N.pos p) (N.pos q)) in change (N.eqb (N.pos p) (N.pos q)) with v
  end.

Ltac crunch :=
  repeat first
    [ hyp_rw
    | lit
    | progress unfold DASH, COLON
    | progress cbn [match1 match2 month_alts digs12 w3 app andb orb fst snd expect_dash year_alt
                    try_my day_alts first_some flat_map DASH COLON negb] ].

Definition small (s : str) : Prop := digits s /\ (length s = 1 \/ length s = 2)%nat.

Lemma small_shape s : small s ->
  (exists a, s = [a] /\ isd a = true) \/ (exists a b, s = [a; b] /\ isd a = true /\ isd b = true).
Proof. intros [H [L|L]]; [left; apply digits1 | right; apply digits2]; assumption. Qed.

(* a month spelling is one or two digits or three letters *)
Lemma mspell_shape s mo : mspell s mo ->
  small s \/ (exists a b c, s = [a; b; c] /\ isal a = true /\ isal b = true /\ isal c = true).
Proof.
  intros [(D & L & _) | (L & H)]; [left; split; assumption | right; eapply letters3; eassumption].
Qed.

Lemma match1_ymd ys ms ds t y mo :
  y4spell ys y -> mspell ms mo -> small ds -> tail_ok t ->
  match1 (ys ++ [DASH] ++ ms ++ [DASH] ++ ds ++ t)
  = Some {| c_y := ys; c_m := ms; c_d := Some ds; c_t := time_caps t |}.
Proof.
  intros (Dy & Ly & _) Hm Hd Ht.
  destruct (digits4 _ Dy Ly) as (y1 & y2 & y3 & y4 & -> & ? & ? & ? & ?).
  apply mspell_shape in Hm.
  destruct Hm as [Hm | (m1 & m2 & m3 & -> & ? & ? & ?)];
    [apply small_shape in Hm; destruct Hm as [(m1 & -> & ?) | (m1 & m2 & -> & ? & ?)]|];
    (apply small_shape in Hd; destruct Hd as [(d1 & -> & ?) | (d1 & d2 & -> & ? & ?)]);
    (destruct t as [|t0 t]; facts; crunch; reflexivity).
Qed.

Lemma match1_ym ys ms t y mo :
  y4spell ys y -> mspell ms mo -> tail_ok t ->
  match1 (ys ++ [DASH] ++ ms ++ t)
  = Some {| c_y := ys; c_m := ms; c_d := None; c_t := time_caps t |}.
Proof.
  intros (Dy & Ly & _) Hm Ht.
  destruct (digits4 _ Dy Ly) as (y1 & y2 & y3 & y4 & -> & ? & ? & ? & ?).
  apply mspell_shape in Hm.
  destruct Hm as [Hm | (m1 & m2 & m3 & -> & ? & ? & ?)];
    [apply small_shape in Hm; destruct Hm as [(m1 & -> & ?) | (m1 & m2 & -> & ? & ?)]|];
    (destruct t as [|t0 t]; facts; crunch; reflexivity).
Qed.

(* the first pattern does not match a text whose first four characters are not all digits *)
Lemma match1_dash2 a r : match1 (a :: 45 :: r) = None.
Proof. destruct r as [|b [|c [|d r]]]; cbn [match1]; try reflexivity. crunch. rewrite !andb_false_r. reflexivity. Qed.

Lemma match1_dash3 a b r : match1 (a :: b :: 45 :: r) = None.
Proof. destruct r as [|c [|d r]]; cbn [match1]; try reflexivity. crunch. rewrite !andb_false_r. reflexivity. Qed.

Lemma match1_nondigit a r : isd a = false -> match1 (a :: r) = None.
Proof. intros H. destruct r as [|b [|c [|d [|e r]]]]; cbn [match1]; try reflexivity. rewrite H. reflexivity. Qed.

Lemma match2_dmy ds ms ys t mo y :
  small ds -> mspell ms mo -> yspell ys y -> tail_ok t ->
  match2 (ds ++ [DASH] ++ ms ++ [DASH] ++ ys ++ t)
  = Some {| c_y := ys; c_m := ms; c_d := Some ds; c_t := time_caps t |}.
Proof.
  intros Hd Hm Hy Ht.
  apply small_shape in Hd. apply mspell_shape in Hm.
  assert (Hy' : (exists a b c e, ys = [a; b; c; e] /\ isd a = true /\ isd b = true /\ isd c = true /\ isd e = true)
                \/ (exists a b, ys = [a; b] /\ isd a = true /\ isd b = true)).
  { destruct Hy as [(D & L & _) | (D & L & _)]; [left; apply digits4 | right; apply digits2]; assumption. }
  destruct Hd as [(d1 & -> & ?) | (d1 & d2 & -> & ? & ?)];
    (destruct Hm as [Hm | (m1 & m2 & m3 & -> & ? & ? & ?)];
     [apply small_shape in Hm; destruct Hm as [(m1 & -> & ?) | (m1 & m2 & -> & ? & ?)]|]);
    (destruct Hy' as [(y1 & y2 & y3 & y4 & -> & ? & ? & ? & ?) | (y1 & y2 & -> & ? & ?)]);
    (destruct t as [|t0 [|t1 t]]; facts; crunch; reflexivity).
Qed.

Lemma match2_my ms ys t mo y :
  mspell ms mo -> yspell ys y -> tail_ok t ->
  match2 (ms ++ [DASH] ++ ys ++ t)
  = Some {| c_y := ys; c_m := ms; c_d := None; c_t := time_caps t |}.
Proof.
  intros Hm Hy Ht.
  apply mspell_shape in Hm.
  assert (Hy' : (exists a b c e, ys = [a; b; c; e] /\ isd a = true /\ isd b = true /\ isd c = true /\ isd e = true)
                \/ (exists a b, ys = [a; b] /\ isd a = true /\ isd b = true)).
  { destruct Hy as [(D & L & _) | (D & L & _)]; [left; apply digits4 | right; apply digits2]; assumption. }
  (destruct Hm as [Hm | (m1 & m2 & m3 & -> & ? & ? & ?)];
     [apply small_shape in Hm; destruct Hm as [(m1 & -> & ?) | (m1 & m2 & -> & ? & ?)]|]);
    (destruct Hy' as [(y1 & y2 & y3 & y4 & -> & ? & ? & ? & ?) | (y1 & y2 & -> & ? & ?)]);
    (destruct t as [|t0 [|t1 t]]; facts; crunch; reflexivity).
Qed.

(* ---------------------------------------------------------------- the time *)

Definition two (s : str) (v : N) : Prop := digits s /\ length s = 2%nat /\ num s = v.

Definition ws_ok (ws : str) : Prop := forallb iss ws = true.

Lemma lstrip_s_app ws r : ws_ok ws ->
  match r with [] => True | c :: _ => iss c = false end -> lstrip_s (ws ++ r) = r.
Proof.
  unfold ws_ok. induction ws as [|w ws IH]; cbn [app forallb lstrip_s]; intros Hw Hr.
  - destruct r as [|c r]; [reflexivity|]. cbn [lstrip_s]. rewrite Hr. reflexivity.
  - apply andb_prop in Hw. destruct Hw as [Hw1 Hw2]. rewrite Hw1. apply IH; assumption.
Qed.

(* what may follow HH:MM when the seconds are left out *)
Definition no_secs (rest : str) : Prop :=
  match rest with
  | f :: g :: h :: _ => (f =? 58) && isd g && isd h = false
  | _ => True
  end.

Definition par_ok (par : str) : Prop := par = [] \/ par = [40].

Lemma time_caps_hms ws par hh mm ss rest h mi s :
  ws_ok ws -> par_ok par -> two hh h -> two mm mi -> two ss s ->
  time_caps (ws ++ par ++ hh ++ [COLON] ++ mm ++ [COLON] ++ ss ++ rest) = (Some hh, Some mm, Some ss).
Proof.
  intros Hw Hp (Dh & Lh & _) (Dm & Lm & _) (Ds & Ls & _).
  destruct (digits2 _ Dh Lh) as (h1 & h2 & -> & ? & ?).
  destruct (digits2 _ Dm Lm) as (m1 & m2 & -> & ? & ?).
  destruct (digits2 _ Ds Ls) as (s1 & s2 & -> & ? & ?).
  unfold time_caps. facts.
  destruct Hp as [-> | ->]; cbn [app];
    (rewrite lstrip_s_app by first [assumption | cbn; assumption | reflexivity]); crunch; reflexivity.
Qed.

Lemma time_caps_hm ws par hh mm rest h mi :
  ws_ok ws -> par_ok par -> two hh h -> two mm mi -> no_secs rest ->
  time_caps (ws ++ par ++ hh ++ [COLON] ++ mm ++ rest) = (Some hh, Some mm, None).
Proof.
  intros Hw Hp (Dh & Lh & _) (Dm & Lm & _) Hr.
  destruct (digits2 _ Dh Lh) as (h1 & h2 & -> & ? & ?).
  destruct (digits2 _ Dm Lm) as (m1 & m2 & -> & ? & ?).
  unfold time_caps. facts.
  destruct Hp as [-> | ->]; cbn [app];
    (rewrite lstrip_s_app by first [assumption | cbn; assumption | reflexivity]);
    (destruct rest as [|f [|g [|k rest]]]; cbn [no_secs] in Hr; crunch; reflexivity).
Qed.

(* ---------------------------------------------------------------- the documented spellings *)

(* the date: DD-MM-YY[YY] with an optional day (the first of the month when left
   out), or YYYY-MM[-DD] *)
Inductive date_spell (t : dt) : str -> Prop :=
| DS_dmy d m y : dspell d (dd t) -> mspell m (dmo t) -> yspell y (dy t) ->
    date_spell t (d ++ [DASH] ++ m ++ [DASH] ++ y)
| DS_my m y : dd t = 1 -> mspell m (dmo t) -> yspell y (dy t) ->
    date_spell t (m ++ [DASH] ++ y)
| DS_ymd y m d : y4spell y (dy t) -> mspell m (dmo t) -> dspell d (dd t) ->
    date_spell t (y ++ [DASH] ++ m ++ [DASH] ++ d)
| DS_ym y m : dd t = 1 -> y4spell y (dy t) -> mspell m (dmo t) ->
    date_spell t (y ++ [DASH] ++ m).

(* the time: nothing (midnight), or HH:MM[:SS] after white space and/or an opening
   parenthesis; whatever follows is ignored *)
Inductive time_spell (t : dt) : str -> Prop :=
| TS_none : dh t = 0 -> dmi t = 0 -> ds t = 0 -> time_spell t []
| TS_hms ws par hh mm ss rest : ws_ok ws -> par_ok par -> (ws <> [] \/ par = [40]) ->
    two hh (dh t) -> two mm (dmi t) -> two ss (ds t) ->
    time_spell t (ws ++ par ++ hh ++ [COLON] ++ mm ++ [COLON] ++ ss ++ rest)
| TS_hm ws par hh mm rest : ws_ok ws -> par_ok par -> (ws <> [] \/ par = [40]) ->
    two hh (dh t) -> two mm (dmi t) -> ds t = 0 -> no_secs rest ->
    time_spell t (ws ++ par ++ hh ++ [COLON] ++ mm ++ rest).

Lemma sep_tail_ok ws par r : ws_ok ws -> par_ok par -> (ws <> [] \/ par = [40]) -> tail_ok (ws ++ par ++ r).
Proof.
  intros Hw Hp Hn. destruct ws as [|w ws].
  - destruct Hn as [Hn | ->]; [congruence|]. cbn. right; reflexivity.
  - cbn. unfold ws_ok in Hw. cbn in Hw. apply andb_prop in Hw. left. apply Hw.
Qed.

Lemma time_spell_caps t b : time_spell t b ->
  tail_ok b /\ exists th tm ts, time_caps b = (th, tm, ts) /\
    opt_num th 0 = dh t /\ opt_num tm 0 = dmi t /\ opt_num ts 0 = ds t.
Proof.
  intros [H1 H2 H3 | ws par hh mm ss rest Hw Hp Hn Hh Hm Hs | ws par hh mm rest Hw Hp Hn Hh Hm Hs Hr].
  - split; [exact I|]. exists None, None, None. cbn. auto.
  - split; [apply sep_tail_ok; assumption|]. exists (Some hh), (Some mm), (Some ss).
    split; [eapply time_caps_hms; eassumption|]. cbn. repeat split; [apply Hh | apply Hm | apply Hs].
  - split; [apply sep_tail_ok; assumption|]. exists (Some hh), (Some mm), None.
    split; [eapply time_caps_hm; eassumption|]. cbn. repeat split; [apply Hh | apply Hm | auto].
Qed.

Lemma fix_ok t ys ms dso th tm ts :
  valid_dt t = true -> yspell ys (dy t) -> mspell ms (dmo t) -> opt_num dso 1 = dd t ->
  opt_num th 0 = dh t -> opt_num tm 0 = dmi t -> opt_num ts 0 = ds t ->
  fix_caps {| c_y := ys; c_m := ms; c_d := dso; c_t := (th, tm, ts) |} = DSome t.
Proof.
  intros Hv Hy Hm Hd Hh Hmi Hs. unfold fix_caps. cbn [c_y c_m c_d c_t].
  assert (Ey : match ys with
               | [_; _] => (if 93 <=? num ys then 1900 else 2000) + num ys
               | _ => num ys
               end = dy t).
  { destruct Hy as [(D & L & E) | (D & L & R & E)].
    - destruct (digits4 _ D L) as (a & b & c & e & -> & _). exact E.
    - destruct (digits2 _ D L) as (a & b & -> & _).
      destruct (93 <=? num [a; b]) eqn:E93; lia. }
  assert (Em : match ms with
               | [_; _; _] => month_of_name ms
               | _ => Some (num ms)
               end = Some (dmo t)).
  { destruct Hm as [(D & [L | L] & E) | (L & E)].
    - destruct (digits1 _ D L) as (a & -> & _). rewrite E. reflexivity.
    - destruct (digits2 _ D L) as (a & b & -> & _). rewrite E. reflexivity.
    - destruct ms as [|a [|b [|c [|e ms]]]]; try discriminate. exact E. }
  rewrite Ey, Em, Hd, Hh, Hmi, Hs.
  destruct t as [y mo d h mi s]. cbn [dy dmo dd dh dmi ds] in *. rewrite Hv. reflexivity.
Qed.

Lemma date_spell_not_now t a b : date_spell t a -> is_now (a ++ b) = false.
Proof.
  assert (Hsmall : forall s v r, dspell s v -> is_now (s ++ r) = false).
  { intros s v r (D & [L | L] & _).
    - destruct (digits1 _ D L) as (x & -> & ?). apply digit_not_now; assumption.
    - destruct (digits2 _ D L) as (x & y & -> & ? & ?). apply digit_not_now; assumption. }
  assert (Hmon : forall s v r, mspell s v -> is_now (s ++ r) = false).
  { intros s v r [H | (L & H)]; [eapply Hsmall; eassumption|].
    destruct s as [|x [|y [|z [|w s]]]]; try discriminate. eapply month_not_now; eassumption. }
  assert (Hy4 : forall s v r, y4spell s v -> is_now (s ++ r) = false).
  { intros s v r (D & L & _). destruct (digits4 _ D L) as (x & y & z & w & -> & ? & _).
    apply digit_not_now; assumption. }
  intros [d m y Hd Hm Hy | m y _ Hm Hy | y m d Hy Hm Hd | y m _ Hy Hm]; rewrite <- !app_assoc; eauto.
Qed.

Lemma match1_none_small s v r : dspell s v -> match1 (s ++ [DASH] ++ r) = None.
Proof.
  intros (D & [L | L] & _).
  - destruct (digits1 _ D L) as (x & -> & ?). apply match1_dash2.
  - destruct (digits2 _ D L) as (x & y & -> & ? & ?). apply match1_dash3.
Qed.

Lemma match1_none_month s v r : mspell s v -> match1 (s ++ [DASH] ++ r) = None.
Proof.
  intros [H | (L & H)]; [eapply match1_none_small; eassumption|].
  destruct s as [|x [|y [|z [|w s]]]]; try discriminate.
  destruct (month_name_letters _ _ _ _ H) as (Hx & _). apply match1_nondigit.
  apply (isal_facts _ Hx).
Qed.

(* every documented spelling of an instant denotes that instant *)
Theorem parse_spelling t a b :
  valid_dt t = true -> date_spell t a -> time_spell t b -> parse_datetime (a ++ b) = DSome t.
Proof.
  intros Hv Ha Hb. unfold parse_datetime. rewrite (date_spell_not_now _ _ _ Ha).
  destruct (time_spell_caps _ _ Hb) as (Ht & th & tm & ts & Etc & Eh & Emi & Es).
  destruct Ha as [d m y Hd Hm Hy | m y H1 Hm Hy | y m d Hy Hm Hd | y m H1 Hy Hm]; rewrite <- !app_assoc.
  - rewrite (match1_none_small _ _ _ Hd).
    rewrite (match2_dmy d m y b (dmo t) (dy t)) by (try assumption; split; apply Hd).
    rewrite Etc. apply fix_ok; try assumption. apply Hd.
  - rewrite (match1_none_month _ _ _ Hm).
    rewrite (match2_my m y b (dmo t) (dy t)) by assumption.
    rewrite Etc. apply fix_ok; try assumption. cbn. symmetry; assumption.
  - rewrite (match1_ymd y m d b (dy t) (dmo t)) by (try assumption; split; apply Hd).
    rewrite Etc. apply fix_ok; try assumption; [left; assumption | apply Hd].
  - rewrite (match1_ym y m b (dy t) (dmo t)) by assumption.
    rewrite Etc. apply fix_ok; try assumption; [left; assumption | cbn; symmetry; assumption].
Qed.

(* ---------------------------------------------------------------- format, then cast *)

Lemma num2 a b : num [a; b] = 10 * (a - 48) + (b - 48).
Proof. unfold num. cbn [fold_left]. lia. Qed.

Lemma two_d2 n : n < 100 -> two (d2 n) n.
Proof.
  intros H. unfold two, d2, digits. cbn [forallb length]. rewrite !isd_dig by lia.
  repeat split. rewrite num2, !dig_val by lia. lia.
Qed.

Lemma dspell_dnat n : n < 100 -> dspell (dnat n) n.
Proof.
  intros H. unfold dnat. destruct (n <? 10) eqn:E.
  - unfold dspell, digits. cbn [forallb length]. rewrite isd_dig by lia. repeat split; [auto|].
    unfold num. cbn [fold_left]. rewrite dig_val by lia. lia.
  - destruct (two_d2 n H) as (D & L & V). repeat split; auto.
Qed.

Lemma y4spell_d4 y : y < 10000 -> y4spell (d4 y) y.
Proof.
  intros H. unfold y4spell, d4, d2, digits. cbn [app forallb length].
  rewrite !isd_dig by lia. repeat split.
  unfold num. cbn [fold_left]. rewrite !dig_val by lia. lia.
Qed.

Lemma mspell_name mo : 1 <= mo <= 12 -> mspell (month_name mo) mo.
Proof.
  intros H. right.
  assert (E : mo = 1 \/ mo = 2 \/ mo = 3 \/ mo = 4 \/ mo = 5 \/ mo = 6 \/ mo = 7 \/ mo = 8 \/
              mo = 9 \/ mo = 10 \/ mo = 11 \/ mo = 12) by lia.
  repeat (destruct E as [-> | E]; [split; vm_compute; reflexivity|]). subst. split; vm_compute; reflexivity.
Qed.

Lemma valid_bounds t : valid_dt t = true ->
  1 <= dy t <= 9999 /\ 1 <= dmo t <= 12 /\ 1 <= dd t <= 31 /\ dh t <= 23 /\ dmi t <= 59 /\ ds t <= 59.
Proof.
  unfold valid_dt. intros H.
  assert (Hd : dim (dy t) (dmo t) <= 31).
  { unfold dim. destruct (dmo t =? 2); [destruct (leap (dy t)); lia|].
    destruct ((dmo t =? 4) || (dmo t =? 6) || (dmo t =? 9) || (dmo t =? 11)); lia. }
  lia.
Qed.

(* casting the formatted form of a date-time (years 1000-9999) returns it *)
Theorem cast_format_date t :
  valid_dt t = true -> 1000 <= dy t -> parse_datetime (format_date t) = DSome t.
Proof.
  intros Hv Hy. destruct (valid_bounds _ Hv) as (By & Bm & Bd & Bh & Bmi & Bs).
  unfold format_date.
  replace (dnat (dd t) ++ [DASH] ++ month_name (dmo t) ++ [DASH] ++ d4 (dy t) ++
           (if (dh t =? 0) && (dmi t =? 0) && (ds t =? 0) then []
            else 32 :: d2 (dh t) ++ [COLON] ++ d2 (dmi t) ++ [COLON] ++ d2 (ds t)))
    with ((dnat (dd t) ++ [DASH] ++ month_name (dmo t) ++ [DASH] ++ d4 (dy t)) ++
          (if (dh t =? 0) && (dmi t =? 0) && (ds t =? 0) then []
           else [32] ++ [] ++ d2 (dh t) ++ [COLON] ++ d2 (dmi t) ++ [COLON] ++ d2 (ds t) ++ []))
    by (rewrite <- !app_assoc, ?app_nil_r; reflexivity).
  apply parse_spelling; [assumption| |].
  - apply DS_dmy; [apply dspell_dnat; lia | apply mspell_name; lia | left; apply y4spell_d4; lia].
  - destruct ((dh t =? 0) && (dmi t =? 0) && (ds t =? 0)) eqn:E.
    + apply TS_none; lia.
    + apply TS_hms; [reflexivity | left; reflexivity | left; discriminate | apply two_d2; lia ..].
Qed.

(* ---------------------------------------------------------------- the premises are satisfiable *)

(* the examples of the documentation of tsdb.cast: 10-6-2002, 8-sep-1999, apr-95,
   01-dec-02 (15:31:01), 2008-10-12 10:51 *)
Example doc_examples :
  parse_datetime [49;48;45;54;45;50;48;48;50] = DSome {| dy := 2002; dmo := 6; dd := 10; dh := 0; dmi := 0; ds := 0 |} /\
  parse_datetime [56;45;115;101;112;45;49;57;57;57] = DSome {| dy := 1999; dmo := 9; dd := 8; dh := 0; dmi := 0; ds := 0 |} /\
  parse_datetime [97;112;114;45;57;53] = DSome {| dy := 1995; dmo := 4; dd := 1; dh := 0; dmi := 0; ds := 0 |} /\
  parse_datetime [48;49;45;100;101;99;45;48;50;32;40;49;53;58;51;49;58;48;49;41]
    = DSome {| dy := 2002; dmo := 12; dd := 1; dh := 15; dmi := 31; ds := 1 |} /\
  parse_datetime [50;48;48;56;45;49;48;45;49;50;32;49;48;58;53;49]
    = DSome {| dy := 2008; dmo := 10; dd := 12; dh := 10; dmi := 51; ds := 0 |}.
Proof. vm_compute. repeat split. Qed.

(* "01-dec-02 (15:31:01)" is a documented spelling in the sense of the theorem *)
Example spelling_instance :
  let t := {| dy := 2002; dmo := 12; dd := 1; dh := 15; dmi := 31; ds := 1 |} in
  valid_dt t = true /\
  date_spell t ([48;49] ++ [DASH] ++ [100;101;99] ++ [DASH] ++ [48;50]) /\
  time_spell t ([32] ++ [40] ++ [49;53] ++ [COLON] ++ [51;49] ++ [COLON] ++ [48;49] ++ [41]).
Proof.
  cbv zeta. split; [reflexivity|]. split.
  - apply DS_dmy.
    + repeat split; [right; reflexivity].
    + right. split; reflexivity.
    + right. repeat split; cbn [dy]; try lia.
  - apply TS_hms; try (repeat split; reflexivity).
    + right; reflexivity.
    + right; reflexivity.
Qed.

(* an invalid calendar date is not a date: 30-feb-2001, 29-feb-1900 *)
Example invalid_dates :
  parse_datetime [51;48;45;102;101;98;45;50;48;48;49] = DNone /\
  parse_datetime [50;57;45;102;101;98;45;49;57;48;48] = DNone /\
  parse_datetime [50;57;45;102;101;98;45;50;48;48;48]
    = DSome {| dy := 2000; dmo := 2; dd := 29; dh := 0; dmi := 0; ds := 0 |}.
Proof. vm_compute. repeat split. Qed.
