(* Proofs about Model/Tsdb.v (C08). *)
From Coq Require Import List NArith ZArith Bool Lia.
From PyD Require Import Base.Str Base.Dec Base.PySlice Model.Tsdb.
Import ListNotations.
Open Scope N_scope.

(* the replace chain is a per-character map *)
Definition esc_char (c : N) : str :=
  if c =? BSL then [BSL; BSL] else if c =? LF then [BSL; CH_n]
  else if c =? AT then [BSL; CH_s] else [c].

Lemma escape_flat s : escape s = flat_map esc_char s.
Proof.
  unfold escape, replace_chain, escape_chain. simpl. unfold replace1.
  rewrite !flat_map_flat_map. apply flat_map_ext. intros c.
  unfold esc_char, BSL, LF, AT, CH_n, CH_s.
  destruct (N.eqb_spec c 92) as [->|H1]; [reflexivity|].
  destruct (N.eqb_spec c 10) as [->|H2]; [reflexivity|].
  destruct (N.eqb_spec c 64) as [->|H3]; [reflexivity|].
  simpl. rewrite (proj2 (N.eqb_neq c 10) H2). simpl.
  rewrite (proj2 (N.eqb_neq c 64) H3). reflexivity.
Qed.

Lemma escape_nil : escape [] = [].
Proof. reflexivity. Qed.

Lemma escape_cons c s : escape (c :: s) = esc_char c ++ escape s.
Proof. rewrite !escape_flat. reflexivity. Qed.

Lemma unescape_go_esc_char c t :
  unescape_go false (esc_char c ++ t) = option_map (cons c) (unescape_go false t).
Proof.
  unfold esc_char, BSL, LF, AT, CH_n, CH_s.
  destruct (N.eqb_spec c 92) as [->|H1]; [reflexivity|].
  destruct (N.eqb_spec c 10) as [->|H2]; [reflexivity|].
  destruct (N.eqb_spec c 64) as [->|H3]; [reflexivity|].
  simpl. unfold BSL. rewrite (proj2 (N.eqb_neq c 92) H1). reflexivity.
Qed.

Theorem unescape_escape s : unescape (escape s) = Some s.
Proof.
  unfold unescape. induction s as [|c s IH]; [reflexivity|].
  rewrite escape_cons, unescape_go_esc_char, IH. reflexivity.
Qed.

(* The only pre-image of s among strings without a raw '@' or newline is
   escape s.  (Without the guard the claim is false: unescape "@" = "@".) *)
Lemma unescape_go_inv n : forall t s, length t = n ->
  ~ In AT t -> ~ In LF t ->
  unescape_go false t = Some s -> escape s = t.
Proof.
  induction n as [n IH] using lt_wf_ind. intros t s Hn Hat Hlf H.
  destruct t as [|c t]; simpl in H.
  - inversion H; reflexivity.
  - assert (HatT: ~ In AT t) by (intros X; apply Hat; right; exact X).
    assert (HlfT: ~ In LF t) by (intros X; apply Hlf; right; exact X).
    destruct (N.eqb_spec c BSL) as [->|Hc].
    + destruct t as [|d t]; simpl in H; [discriminate|].
      assert (HatT2: ~ In AT t) by (intros X; apply HatT; right; exact X).
      assert (HlfT2: ~ In LF t) by (intros X; apply HlfT; right; exact X).
      assert (IH': forall s', unescape_go false t = Some s' -> escape s' = t).
      { intros s' E. apply (IH (length t)); simpl in *; try lia; auto. }
      destruct (N.eqb_spec d BSL) as [->|Hd1].
      { destruct (unescape_go false t) as [s'|] eqn:E; [|discriminate].
        simpl in H. inversion H; subst s. rewrite escape_cons, (IH' s' eq_refl). reflexivity. }
      destruct (N.eqb_spec d CH_s) as [->|Hd2].
      { destruct (unescape_go false t) as [s'|] eqn:E; [|discriminate].
        simpl in H. inversion H; subst s. rewrite escape_cons, (IH' s' eq_refl). reflexivity. }
      destruct (N.eqb_spec d CH_n) as [->|Hd3]; [|discriminate].
      { destruct (unescape_go false t) as [s'|] eqn:E; [|discriminate].
        simpl in H. inversion H; subst s. rewrite escape_cons, (IH' s' eq_refl). reflexivity. }
    + destruct (unescape_go false t) as [s'|] eqn:E; [|discriminate].
      simpl in H. inversion H; subst s. rewrite escape_cons.
      rewrite (IH (length t)) with (t := t) (s := s'); simpl in *; try lia; auto.
      unfold esc_char. rewrite (proj2 (N.eqb_neq c BSL) Hc).
      destruct (N.eqb_spec c LF) as [->|H2]; [exfalso; apply Hlf; left; reflexivity|].
      destruct (N.eqb_spec c AT) as [->|H3]; [exfalso; apply Hat; left; reflexivity|].
      reflexivity.
Qed.

Theorem escape_unescape t s :
  ~ In AT t -> ~ In LF t -> unescape t = Some s -> escape s = t.
Proof. intros. eapply unescape_go_inv; eauto. Qed.

Theorem escape_unescape_unguarded_refuted :
  exists t s, unescape t = Some s /\ escape s <> t.
Proof. exists [AT], [AT]. split; [reflexivity|]. vm_compute. discriminate. Qed.

(* exactly which strings unescape rejects *)
Fixpoint well_escaped (t : str) : bool :=
  match t with
  | [] => true
  | c :: t' =>
      if c =? BSL then
        match t' with
        | [] => false
        | d :: t'' => ((d =? BSL) || (d =? CH_s) || (d =? CH_n)) && well_escaped t''
        end
      else well_escaped t'
  end.

Lemma option_map_none {A B} (f : A -> B) o : option_map f o = None <-> o = None.
Proof. destruct o; simpl; split; intros; congruence. Qed.

Lemma unescape_rejects_aux n : forall t, length t = n ->
  (unescape_go false t = None <-> well_escaped t = false).
Proof.
  induction n as [n IH] using lt_wf_ind. intros t Hn.
  destruct t as [|c t]; simpl.
  - split; discriminate.
  - destruct (N.eqb_spec c BSL) as [->|Hc].
    + destruct t as [|d t]; simpl; [tauto|].
      assert (IH': unescape_go false t = None <-> well_escaped t = false).
      { apply (IH (length t)); simpl in *; lia. }
      destruct (d =? BSL); simpl; [rewrite option_map_none; exact IH'|].
      destruct (d =? CH_s); simpl; [rewrite option_map_none; exact IH'|].
      destruct (d =? CH_n); simpl; [rewrite option_map_none; exact IH'|].
      tauto.
    + assert (IH': unescape_go false t = None <-> well_escaped t = false).
      { apply (IH (length t)); simpl in *; lia. }
      rewrite option_map_none; exact IH'.
Qed.

Theorem unescape_rejects t : unescape t = None <-> well_escaped t = false.
Proof. apply (unescape_rejects_aux (length t)); reflexivity. Qed.

(* escape output is delimiter- and newline-free *)
Lemma esc_char_safe c x : In x (esc_char c) -> x <> AT /\ x <> LF.
Proof.
  unfold esc_char, BSL, LF, AT, CH_n, CH_s.
  destruct (N.eqb_spec c 92) as [->|H1].
  { simpl; intros [<-|[<-|[]]]; split; discriminate. }
  destruct (N.eqb_spec c 10) as [->|H2].
  { simpl; intros [<-|[<-|[]]]; split; discriminate. }
  destruct (N.eqb_spec c 64) as [->|H3].
  { simpl; intros [<-|[<-|[]]]; split; discriminate. }
  simpl; intros [<-|[]]; split; assumption.
Qed.

Theorem escape_safe s : ~ In AT (escape s) /\ ~ In LF (escape s).
Proof.
  rewrite escape_flat. split; intros H; apply in_flat_map in H;
    destruct H as [c [_ Hx]]; apply esc_char_safe in Hx; destruct Hx; congruence.
Qed.

(* ---- records ---- *)

Lemma sequence_map_some {A B} (f : A -> B) (g : A -> option B) l :
  (forall x, In x l -> g x = Some (f x)) -> sequence (map g l) = Some (map f l).
Proof.
  induction l as [|x l IH]; intros H; simpl; [reflexivity|].
  rewrite (H x (or_introl eq_refl)). rewrite IH by (intros y Hy; apply H; right; exact Hy).
  reflexivity.
Qed.

Lemma escape_nil_inv s : escape s = [] -> s = [].
Proof.
  destruct s as [|c s]; [reflexivity|]. rewrite escape_cons.
  unfold esc_char. destruct (c =? BSL); [discriminate|].
  destruct (c =? LF); [discriminate|]. destruct (c =? AT); discriminate.
Qed.

Theorem split_join vs : vs <> [] -> split_raw (join_raw vs) = Some (map none_if_empty vs).
Proof.
  intros Hne. unfold split_raw, join_raw.
  assert (Hcols: forall x, In x (map (fun v => escape (raw_str v)) vs) -> ~ In AT x /\ ~ In LF x).
  { intros x Hx. apply in_map_iff in Hx. destruct Hx as [v [<- _]]. apply escape_safe. }
  rewrite rstrip1_notin.
  2:{ intros H. apply In_join_on in H. destruct H as [H|[x [Hx Hc]]].
      - discriminate.
      - apply Hcols in Hx. tauto. }
  rewrite split_join_on.
  2:{ destruct vs; [congruence|discriminate]. }
  2:{ intros x Hx. apply Hcols in Hx. tauto. }
  rewrite map_map. apply sequence_map_some.
  intros v _. destruct v as [s|]; simpl; [|reflexivity].
  destruct (escape s) as [|c e] eqn:E.
  - apply escape_nil_inv in E. subst. reflexivity.
  - rewrite <- E, unescape_escape. simpl.
    destruct s; [discriminate E|reflexivity].
Qed.

(* also when the stored line carries its trailing newline(s) *)
Theorem split_join_newline vs k : vs <> [] ->
  split_raw (join_raw vs ++ repeat LF k) = Some (map none_if_empty vs).
Proof.
  intros Hne. rewrite <- (split_join vs Hne). unfold split_raw. f_equal. f_equal. f_equal.
  assert (Hn: ~ In LF (join_raw vs)).
  { unfold join_raw. intros H. apply In_join_on in H. destruct H as [H|[x [Hx Hc]]].
    - discriminate.
    - apply in_map_iff in Hx. destruct Hx as [v [<- _]].
      pose proof (escape_safe (raw_str v)). tauto. }
  rewrite (rstrip1_notin LF (join_raw vs) Hn).
  unfold rstrip1. rewrite rev_app_distr.
  assert (R: rev (repeat LF k) = repeat LF k).
  { induction k as [|k IHk]; [reflexivity|]. simpl. rewrite IHk.
    clear. induction k as [|k IHk]; [reflexivity|]. simpl. rewrite IHk. reflexivity. }
  rewrite R. clear R.
  induction k as [|k IHk]; simpl.
  - destruct (rev (join_raw vs)) as [|x r] eqn:E.
    + apply (f_equal (@rev N)) in E. rewrite rev_involutive in E. simpl in E. rewrite E. reflexivity.
    + destruct (N.eqb_spec x LF) as [->|Hx].
      * exfalso. apply Hn. apply in_rev. rewrite E. left; reflexivity.
      * rewrite <- E. apply rev_involutive.
  - exact IHk.
Qed.

Theorem join_delimiters vs :
  count_char AT (join_raw vs) = (length vs - 1)%nat /\ ~ In LF (join_raw vs).
Proof.
  unfold join_raw. split.
  - rewrite count_char_join_on; [rewrite map_length; reflexivity|].
    intros x Hx. apply in_map_iff in Hx. destruct Hx as [v [<- _]]. apply escape_safe.
  - intros H. apply In_join_on in H. destruct H as [H|[x [Hx Hc]]]; [discriminate|].
    apply in_map_iff in Hx. destruct Hx as [v [<- _]].
    pose proof (escape_safe (raw_str v)). tauto.
Qed.

Theorem join_injective vs ws :
  vs <> [] -> ws <> [] -> join_raw vs = join_raw ws ->
  map none_if_empty vs = map none_if_empty ws.
Proof.
  intros Hv Hw E. pose proof (split_join vs Hv) as A. pose proof (split_join ws Hw) as B.
  rewrite E in A. congruence.
Qed.

(* ---- typed columns ---- *)

Theorem cast_format_int z : cast_val TInt (Some (format_val TInt (VInt z) None)) = COk (VInt z).
Proof.
  simpl. destruct (Z_to_dec z) as [|c s] eqn:E.
  - exfalso. pose proof (dec_to_Z_to_dec z) as H. rewrite E in H. discriminate.
  - rewrite <- E, dec_to_Z_to_dec. reflexivity.
Qed.

Theorem cast_format_int_none :
  cast_val TInt (Some (format_val TInt VNone None)) = COk (VInt (-1)).
Proof. reflexivity. Qed.

Theorem cast_format_str s : s <> [] ->
  cast_val TStr (Some (format_val TStr (VStr s) None)) = COk (VStr s).
Proof. destruct s; [congruence|reflexivity]. Qed.

Theorem cast_format_none t : t <> TInt ->
  cast_val t (Some (format_val t VNone None)) = COk VNone.
Proof. destruct t; [congruence|reflexivity..]. Qed.

(* typed line: split of a typed join gives back the raw formatted columns *)
Theorem join_typed_split vs fs line : fs <> [] ->
  join_typed vs fs = Some line ->
  split_raw line = Some (map (fun p => none_if_empty (Some
      (format_val (f_type (fst p)) (snd p) (Some (field_default (f_name (fst p)) (f_type (fst p)))))))
      (combine fs vs)).
Proof.
  intros Hne. unfold join_typed. destruct (Nat.eqb_spec (length vs) (length fs)) as [El|]; [|discriminate].
  intros H; inversion H; clear H.
  set (g := fun p : field * value => format_val (f_type (fst p)) (snd p)
                 (Some (field_default (f_name (fst p)) (f_type (fst p))))).
  assert (Hne2: map (fun p => Some (g p)) (combine fs vs) <> []).
  { destruct fs; [congruence|]. destruct vs; discriminate. }
  pose proof (split_join (map (fun p => Some (g p)) (combine fs vs)) Hne2) as S.
  unfold join_raw in S. rewrite !map_map in S. simpl in S.
  exact S.
Qed.

(* ---- Row views ---- *)

Lemma nth_error_combine {A B} (l1 : list A) (l2 : list B) k :
  nth_error (combine l1 l2) k =
  match nth_error l1 k, nth_error l2 k with
  | Some a, Some b => Some (a, b) | _, _ => None end.
Proof.
  revert l2 k. induction l1 as [|a l1 IH]; intros l2 k; simpl.
  - destruct k; reflexivity.
  - destruct l2 as [|b l2]; simpl.
    + destruct k; simpl; [reflexivity|]. destruct (nth_error l1 k); reflexivity.
    + destruct k; simpl; [reflexivity|]. apply IH.
Qed.

Lemma py_getitem_combine {A B} (l1 : list A) (l2 : list B) i :
  length l1 = length l2 ->
  py_getitem (combine l1 l2) i =
  match py_getitem l1 i, py_getitem l2 i with
  | Some a, Some b => Some (a, b) | _, _ => None end.
Proof.
  intros El. unfold py_getitem. rewrite combine_length, <- El, Nat.min_id.
  destruct (py_index (length l1) i) as [k|] eqn:E; [|reflexivity].
  apply nth_error_combine.
Qed.

Lemma pick_combine {A B} (l1 : list A) (l2 : list B) idx :
  length l1 = length l2 ->
  pick (combine l1 l2) idx = combine (pick l1 idx) (pick l2 idx).
Proof.
  intros El. unfold pick. induction idx as [|i idx IH]; simpl; [reflexivity|].
  rewrite IH, nth_error_combine.
  destruct (nth_error l1 (Z.to_nat i)) as [a|] eqn:E1;
    destruct (nth_error l2 (Z.to_nat i)) as [b|] eqn:E2; simpl; try reflexivity.
  - apply nth_error_None in E2. assert (nth_error l1 (Z.to_nat i) <> None) as X by congruence.
    apply nth_error_Some in X. lia.
  - apply nth_error_None in E1. assert (nth_error l2 (Z.to_nat i) <> None) as X by congruence.
    apply nth_error_Some in X. lia.
Qed.

Definition row_ok (r : row) : Prop := length (r_fields r) = length (r_data r).

Lemma mk_row_ok fs vs r : mk_row fs vs = Some r -> row_ok r.
Proof.
  unfold mk_row, row_ok. destruct (Nat.eqb_spec (length vs) (length fs)) as [E|]; [|discriminate].
  intros H; inversion H; subst; simpl. rewrite map_length, combine_length. lia.
Qed.

Theorem row_view_int r i : row_ok r ->
  row_getitem_int r i = py_getitem (row_iter r) i.
Proof.
  intros Hok. unfold row_getitem_int, row_iter.
  rewrite py_getitem_map, py_getitem_combine by exact Hok.
  destruct (py_getitem (r_fields r) i), (py_getitem (r_data r) i); reflexivity.
Qed.

Theorem row_view_slice r s : row_ok r ->
  row_getitem_slice r s = py_slice (row_iter r) s.
Proof.
  intros Hok. unfold row_getitem_slice, row_iter.
  rewrite py_slice_map. unfold py_slice.
  rewrite combine_length, <- Hok, Nat.min_id.
  destruct (slice_positions s (length (r_fields r))); [|reflexivity].
  simpl. rewrite pick_combine by exact Hok. reflexivity.
Qed.

Lemma field_index_bound fs k name j :
  field_index fs k name = Some j -> (k <= j < k + length fs)%nat /\
  exists f, nth_error fs (j - k) = Some f /\ f_name f = name.
Proof.
  revert k j. induction fs as [|f fs IH]; intros k j; simpl; [discriminate|].
  destruct (field_index fs (S k) name) as [j'|] eqn:E.
  - intros H; inversion H; subst j'. apply IH in E. destruct E as [Hb [g [Hg Hn]]].
    split; [lia|]. exists g. split; [|exact Hn].
    replace (j - k)%nat with (S (j - S k)) by lia. exact Hg.
  - destruct (str_eqb (f_name f) name) eqn:Es; [|discriminate].
    intros H; inversion H; subst j. split; [lia|]. exists f.
    rewrite Nat.sub_diag. split; [reflexivity|]. apply str_eqb_spec; exact Es.
Qed.

Theorem row_view_name r name k : row_ok r ->
  field_index (r_fields r) 0 name = Some k ->
  row_getitem_name r name = nth_error (row_iter r) k /\
  exists f, nth_error (r_fields r) k = Some f /\ f_name f = name.
Proof.
  intros Hok Hk. unfold row_getitem_name. rewrite Hk.
  pose proof (field_index_bound _ _ _ _ Hk) as [Hb [f [Hf Hn]]].
  rewrite Nat.sub_0_r in Hf. split; [|exists f; split; assumption].
  rewrite row_view_int by exact Hok. unfold py_getitem, py_index.
  unfold row_iter. rewrite map_length, combine_length, <- Hok, Nat.min_id.
  assert ((0 <=? Z.of_nat k)%Z && (Z.of_nat k <? Z.of_nat (length (r_fields r)))%Z = true) as ->.
  { apply andb_true_iff. split; [apply Z.leb_le|apply Z.ltb_lt]; lia. }
  rewrite Nat2Z.id. reflexivity.
Qed.

(* the cast view of a freshly made row returns the values it was made from *)
Theorem row_iter_mk fs vs r :
  mk_row fs vs = Some r ->
  row_iter r = map (fun p => cast_val (f_type (fst p))
                               (Some (format_val (f_type (fst p)) (snd p) None)))
                   (combine fs vs).
Proof.
  unfold mk_row. destruct (Nat.eqb_spec (length vs) (length fs)) as [E|]; [|discriminate].
  intros H; inversion H; subst; clear H. unfold row_iter; simpl.
  revert vs E. induction fs as [|f fs IH]; intros [|v vs] E; simpl in *; try reflexivity; try lia.
  unfold cast_pair at 1; simpl. f_equal. apply IH. lia.
Qed.
