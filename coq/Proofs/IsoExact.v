(* C06: a mapping returned by the VF2 search on the closed isographs is an isomorphism of
   the isographs themselves: one-to-one, label preserving, and for ANY two of its pairs the
   directed edge between them carries the same data in both graphs (or is absent in both). *)
From Coq Require Import List NArith Bool Arith Lia.
From PyD Require Import Base.Str Model.Hier Model.Mrs Model.Iso Proofs.HierP Proofs.IsoP Proofs.IsoComplete
  Proofs.IsoSound Proofs.IsoClosure.
Import ListNotations.

Lemma two_members {A} (a b : A) r : In a r -> In b r -> a <> b ->
  (exists l1 l2, r = l1 ++ a :: l2 /\ In b l2) \/ (exists l1 l2, r = l1 ++ b :: l2 /\ In a l2).
Proof.
  intros Ha Hb Hne. destruct (in_split _ _ Ha) as (l1 & l2 & ->).
  apply in_app_or in Hb. destruct Hb as [Hb|[Hb|Hb]].
  - right. destruct (in_split _ _ Hb) as (k1 & k2 & ->). exists k1, (k2 ++ a :: l2).
    split; [rewrite <- app_assoc; reflexivity | apply in_or_app; right; left; reflexivity].
  - congruence.
  - left. exists l1, l2. auto.
Qed.

Lemma nodup_fst_eq {A B} (r : list (A * B)) a b b' : NoDup (map fst r) -> In (a, b) r -> In (a, b') r -> b = b'.
Proof.
  induction r as [|[x y] r IH]; intros N H H'; [destruct H|]. cbn [map fst] in N.
  inversion N as [|? ? Hx N']; subst. destruct H as [E|H], H' as [E'|H'].
  - congruence.
  - inversion E; subst. exfalso. apply Hx. apply in_map_iff. exists (a, b'). auto.
  - inversion E'; subst. exfalso. apply Hx. apply in_map_iff. exists (a, b). auto.
  - apply IH; assumption.
Qed.

Lemma nodup_snd_eq {A B} (r : list (A * B)) a a' b : NoDup (map snd r) -> In (a, b) r -> In (a', b) r -> a = a'.
Proof.
  induction r as [|[x y] r IH]; intros N H H'; [destruct H|]. cbn [map snd] in N.
  inversion N as [|? ? Hx N']; subst. destruct H as [E|H], H' as [E'|H'].
  - congruence.
  - inversion E; subst. exfalso. apply Hx. apply in_map_iff. exists (a', b). auto.
  - inversion E'; subst. exfalso. apply Hx. apply in_map_iff. exists (a, b). auto.
  - apply IH; assumption.
Qed.

Lemma node_lbl_inv_map g n : wf_graph g -> node_lbl (inv_map g) n = node_lbl g n.
Proof. intros W. unfold node_lbl. pose proof (inv_map_lbl g n W) as H. unfold lk in H. rewrite H. reflexivity. Qed.

Theorem vf2_exact g1 g2 r :
  wf_graph g1 -> wf_graph g2 -> clean_graph g1 -> clean_graph g2 ->
  search (S (length (inv_map g2))) (inv_map g1) (inv_map g2) [] = Some r ->
  NoDup (map fst r) /\ NoDup (map snd r) /\ length (inv_map g2) <= length r /\
  (forall n m, In (n, m) r -> node_lbl g1 n = node_lbl g2 m) /\
  (forall n m n' m', In (n, m) r -> In (n', m') r -> lk g1 n (Some n') = lk g2 m (Some m')).
Proof.
  intros W1 W2 C1 C2 H.
  destruct (search_sound _ _ _ H) as (N1 & N2 & L & Hl & He).
  split; [exact N1|]. split; [exact N2|]. split; [exact L|]. split.
  - intros n m Hin. destruct (Hl n m Hin) as (A & _ & _).
    rewrite !node_lbl_inv_map in A by assumption. exact A.
  - intros n m n' m' Hp Hp'.
    assert (CO1 : forall a b, clean_opt (lk g1 a (Some b))).
    { intros a b. destruct (lk g1 a (Some b)) as [d|] eqn:E; [exact (C1 a b d E) | exact I]. }
    assert (CO2 : forall a b, clean_opt (lk g2 a (Some b))).
    { intros a b. destruct (lk g2 a (Some b)) as [d|] eqn:E; [exact (C2 a b d E) | exact I]. }
    destruct (list_eq_dec N.eq_dec n n') as [En|En].
    + (* the same pair: the self loop *)
      subst n'. assert (m' = m) by (eapply nodup_fst_eq; eassumption). subst m'.
      destruct (Hl n m Hp) as (_ & S & _). fold (lk (inv_map g1) n (Some n)) in S.
      fold (lk (inv_map g2) m (Some m)) in S. rewrite !inv_map_self in S by assumption. exact S.
    + assert (Em : m <> m') by (intros X; subst m'; apply En; eapply nodup_snd_eq; eassumption).
      assert (Hne : (n, m) <> (n', m')) by congruence.
      destruct (two_members (n, m) (n', m') r Hp Hp' Hne) as [(l1 & l2 & -> & Hin)|(l1 & l2 & -> & Hin)].
      * pose proof (He l1 n m l2 n' m' eq_refl Hin) as X.
        fold (lk (inv_map g1) n (Some n')) in X. fold (lk (inv_map g2) m (Some m')) in X.
        rewrite !inv_map_F in X by assumption.
        destruct (F_inj _ _ _ _ (CO1 n n') (CO2 m m') X) as [A _]. exact A.
      * pose proof (He l1 n' m' l2 n m eq_refl Hin) as X.
        fold (lk (inv_map g1) n' (Some n)) in X. fold (lk (inv_map g2) m' (Some m)) in X.
        rewrite !inv_map_F in X by first [assumption | (intros Y; apply En; symmetry; exact Y) | (intros Y; apply Em; symmetry; exact Y)].
        destruct (F_inj _ _ _ _ (CO1 n' n) (CO2 m' m) X) as [_ B]. exact B.
Qed.

(* ---------------------------------------------------------------- deciding the hypotheses *)

Fixpoint nodup_strb (l : list str) : bool :=
  match l with [] => true | x :: l' => negb (mem x l') && nodup_strb l' end.

Lemma nodup_strb_sound l : nodup_strb l = true -> NoDup l.
Proof.
  induction l as [|x l IH]; intros H; [constructor|]. cbn [nodup_strb] in H.
  apply andb_prop in H. destruct H as [H1 H2]. apply negb_true_iff in H1. apply mem_false in H1.
  constructor; [exact H1 | apply IH; exact H2].
Qed.

Fixpoint nodup_keyb (l : list key) : bool :=
  match l with [] => true | x :: l' => negb (existsb (key_eqb x) l') && nodup_keyb l' end.

Lemma nodup_keyb_sound l : nodup_keyb l = true -> NoDup l.
Proof.
  induction l as [|x l IH]; intros H; [constructor|]. cbn [nodup_keyb] in H.
  apply andb_prop in H. destruct H as [H1 H2]. apply negb_true_iff in H1.
  constructor; [|apply IH; exact H2]. intros X.
  assert (existsb (key_eqb x) l = true) by (apply existsb_exists; exists x; split; [exact X | apply key_eqb_refl]).
  congruence.
Qed.

Definition wf_graphb (g : igraph) : bool :=
  nodup_strb (map fst g) &&
  forallb (fun nd => nodup_keyb (map fst (snd nd))) g &&
  forallb (fun nd => forallb (fun kd => match fst kd with Some k => mem k (map fst g) | None => true end) (snd nd)) g.

Lemma g_get_cases g n : g_get g n = [] \/ In (n, g_get g n) g.
Proof.
  unfold g_get. destruct (dict_get n g) as [d|] eqn:E; [right; apply dict_get_In'; exact E | left; reflexivity].
Qed.

Lemma mem_true_In x l : mem x l = true -> In x l.
Proof.
  intros H. destruct (in_dec (list_eq_dec N.eq_dec) x l) as [Hi|Hn]; [exact Hi|].
  apply mem_false in Hn. congruence.
Qed.

Lemma wf_graphb_sound g : wf_graphb g = true -> wf_graph g.
Proof.
  unfold wf_graphb. intros H. apply andb_prop in H. destruct H as [H H3]. apply andb_prop in H. destruct H as [H1 H2].
  rewrite forallb_forall in H2, H3. split; [apply nodup_strb_sound; exact H1|]. split.
  - intros n. destruct (g_get_cases g n) as [E|Hin]; [rewrite E; constructor|].
    apply nodup_keyb_sound. exact (H2 _ Hin).
  - intros n k v Hin. destruct (g_get_cases g n) as [E|Hg]; [rewrite E in Hin; destruct Hin|].
    specialize (H3 _ Hg). cbn [snd] in H3. rewrite forallb_forall in H3. specialize (H3 _ Hin). cbn [fst] in H3.
    apply mem_true_In. exact H3.
Qed.

Fixpoint starts (p s : str) : bool :=
  match p, s with
  | [], _ => true
  | a :: p', b :: s' => N.eqb a b && starts p' s'
  | _, [] => false
  end.

Lemma starts_app p q : starts p (p ++ q) = true.
Proof. induction p as [|a p IH]; [reflexivity|]. cbn [starts app]. rewrite N.eqb_refl. exact IH. Qed.

Fixpoint has_sep (s : str) : bool :=
  starts SEP s || match s with [] => false | _ :: s' => has_sep s' end.

Lemma has_sep_app p q : has_sep (p ++ SEP ++ q) = true.
Proof.
  induction p as [|a p IH].
  - cbn [app]. destruct (SEP ++ q) eqn:E; cbn [has_sep]; rewrite <- E, starts_app; reflexivity.
  - cbn [app has_sep]. rewrite IH. apply orb_true_r.
Qed.

Definition cleanb (d : str) : bool := negb (starts DASHES d) && negb (has_sep d).

Lemma cleanb_sound d : cleanb d = true -> clean d.
Proof.
  unfold cleanb. intros H. apply andb_prop in H. destruct H as [H1 H2].
  apply negb_true_iff in H1, H2. split.
  - intros q E. subst d. rewrite starts_app in H1. discriminate.
  - intros p q E. subst d. rewrite has_sep_app in H2. discriminate.
Qed.

Definition clean_graphb (g : igraph) : bool :=
  forallb (fun nd => forallb (fun kd => match fst kd with Some _ => cleanb (snd kd) | None => true end) (snd nd)) g.

Lemma clean_graphb_sound g : clean_graphb g = true -> clean_graph g.
Proof.
  unfold clean_graphb. intros H a b d L. unfold lk in L. apply ed_get_In in L.
  destruct (g_get_cases g a) as [E|Hg]; [rewrite E in L; destruct L|].
  rewrite forallb_forall in H. specialize (H _ Hg). cbn [snd] in H. rewrite forallb_forall in H.
  specialize (H _ L). cbn [fst snd] in H. apply cleanb_sound. exact H.
Qed.

(* the theorem with decidable hypotheses *)
Corollary vf2_exact_b g1 g2 r :
  wf_graphb g1 = true -> wf_graphb g2 = true -> clean_graphb g1 = true -> clean_graphb g2 = true ->
  search (S (length (inv_map g2))) (inv_map g1) (inv_map g2) [] = Some r ->
  NoDup (map fst r) /\ NoDup (map snd r) /\ length (inv_map g2) <= length r /\
  (forall n m, In (n, m) r -> node_lbl g1 n = node_lbl g2 m) /\
  (forall n m n' m', In (n, m) r -> In (n', m') r -> lk g1 n (Some n') = lk g2 m (Some m')).
Proof.
  intros A B C D. apply vf2_exact; auto using wf_graphb_sound, clean_graphb_sound.
Qed.

(* the premises are satisfiable: two three-node graphs with an edge each way between two nodes *)
Definition xa : str := [97]%N. Definition xb : str := [98]%N. Definition xc : str := [99]%N.
Definition xg1 : igraph :=
  [(xa, [(None, [112]%N); (Some xb, [65;82;71;49]%N)]); (xb, [(None, [113]%N); (Some xa, [113;101;113]%N)]); (xc, [])].
Definition xg2 : igraph :=
  [(xc, []); (xb, [(None, [112]%N); (Some xa, [65;82;71;49]%N)]); (xa, [(None, [113]%N); (Some xb, [113;101;113]%N)])].

Example vf2_exact_example :
  wf_graphb xg1 = true /\ wf_graphb xg2 = true /\ clean_graphb xg1 = true /\ clean_graphb xg2 = true /\
  search (S (length (inv_map xg2))) (inv_map xg1) (inv_map xg2) [] = Some [(xc, xc); (xa, xb); (xb, xa)].
Proof. vm_compute. repeat split. Qed.
