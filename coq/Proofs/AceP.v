(* Proofs about the ACE interaction model (C19). *)
From Coq Require Import List NArith ZArith Bool Arith Lia.
From PyD Require Import Base.Str Model.Mrs Model.SimpleMrs Model.ConvertCmd Model.Ace.
Import ListNotations.

(* ---------------------------------------------------------------- *)
(* the line reader *)

(* the lines a piece of the stream contributes (run notes are absorbed) *)
Definition content (b : list str) : list str :=
  map rstrip (filter (fun s => negb (is_prefix RUN_NOTE s)) b).

Lemma content_app a b : content (a ++ b) = content a ++ content b.
Proof. unfold content. rewrite filter_app, map_app. reflexivity. Qed.

(* whatever the reader returns was read from the front of the stream: the
   lines are the content of a prefix, the rest is left untouched, and the
   end of the stream is reported only when everything was consumed *)
Lemma read_lines_sound ts : forall stream acc ls rest eof,
  read_lines ts stream acc = (ls, rest, eof) ->
  exists consumed, stream = consumed ++ rest /\ ls = acc ++ content consumed /\ (eof = true -> rest = []).
Proof.
  intros stream. revert ts. induction stream as [|s stream IH]; intros ts acc ls rest eof H.
  - destruct ts; cbn in H; inversion H; subst; exists []; rewrite app_nil_r; repeat split; auto; try discriminate; try (cbn; rewrite app_nil_r; reflexivity).
  - destruct ts as [|t ts'].
    + cbn in H. inversion H; subst. exists []. rewrite app_nil_r. repeat split; auto; try discriminate; try (cbn; rewrite app_nil_r; reflexivity).
    + cbn [read_lines] in H. destruct (is_prefix RUN_NOTE s) eqn:En.
      * destruct (IH _ _ _ _ _ H) as [c [E1 [E2 E3]]]. exists (s :: c). subst. repeat split; auto.
        unfold content. cbn [filter]. rewrite En. reflexivity.
      * destruct (term_match t s).
        -- destruct (IH _ _ _ _ _ H) as [c [E1 [E2 E3]]]. exists (s :: c). subst. repeat split; auto.
           unfold content. cbn [filter]. rewrite En. cbn [negb map]. rewrite <- app_assoc. reflexivity.
        -- destruct (IH _ _ _ _ _ H) as [c [E1 [E2 E3]]]. exists (s :: c). subst. repeat split; auto.
           unfold content. cbn [filter]. rewrite En. cbn [negb map]. rewrite <- app_assoc. reflexivity.
Qed.

(* a complete answer: reading it meets every terminator exactly at its last line *)
Fixpoint blockb (ts : list terminus) (b : list str) : bool :=
  match b with
  | [] => match ts with [] => true | _ => false end
  | s :: b' =>
      match ts with
      | [] => false
      | t :: ts' =>
          if is_prefix RUN_NOTE s then blockb ts b'
          else if term_match t s then blockb ts' b' else blockb ts b'
      end
  end.

Lemma read_block ts : forall b rest acc, blockb ts b = true ->
  read_lines ts (b ++ rest) acc = (acc ++ content b, rest, false).
Proof.
  intros b. revert ts. induction b as [|s b IH]; intros ts rest acc H.
  - destruct ts; [|discriminate]. cbn [app content filter map]. rewrite app_nil_r. destruct rest; reflexivity.
  - destruct ts as [|t ts']; [discriminate|]. cbn [blockb] in H. cbn [app read_lines].
    destruct (is_prefix RUN_NOTE s) eqn:En.
    + rewrite IH by exact H. unfold content. cbn [filter]. rewrite En. reflexivity.
    + destruct (term_match t s).
      * rewrite IH by exact H. unfold content. cbn [filter]. rewrite En. cbn [negb map]. rewrite <- app_assoc. reflexivity.
      * rewrite IH by exact H. unfold content. cbn [filter]. rewrite En. cbn [negb map]. rewrite <- app_assoc. reflexivity.
Qed.

(* ---------------------------------------------------------------- *)
(* one interaction *)

Definition ev_ok (t : task) (tsdb : bool) (ev : event) : Prop :=
  match ev with
  | EvLost => True
  | EvAnswer lines exits => blockb (termini t tsdb) lines = true \/ exits = true
  end.

(* the response to an item only depends on that item: its own input, and
   lines read from what the processor wrote for that very request *)
Definition own (t : task) (tsdb : bool) (item : str * event) (r : response) : Prop :=
  r_input r = fst item /\
  match validate t (fst item) with
  | [] => r_skipped r = true /\ r_lines r = []
  | _ =>
      r_skipped r = false /\
      match snd item with
      | EvLost => r_lines r = []
      | EvAnswer lines exits =>
          (exists consumed rest, lines = consumed ++ rest /\ r_lines r = filter nonblank (content consumed)) /\
          (blockb (termini t tsdb) lines = true -> r_lines r = filter nonblank (content lines))
      end
  end.

Lemma interact_own t tsdb st d ev r st' :
  ps_pending st = [] -> ev_ok t tsdb ev -> interact t tsdb st d ev = (r, st') ->
  own t tsdb (d, ev) r /\ ps_pending st' = [].
Proof.
  intros Hp Hok H. unfold interact in H. unfold own. cbn [fst snd].
  destruct (validate t d) as [|c v] eqn:Ev.
  - inversion H; subst. cbn. repeat split; auto.
  - destruct ev as [lines exits|].
    + rewrite Hp in H.
      assert (Hpend : (if ps_alive st then @nil str else []) = []) by (destruct (ps_alive st); reflexivity).
      rewrite Hpend in H. cbn [app] in H. unfold result_lines in H.
      destruct (read_lines (termini t tsdb) lines []) as [[ls rest] eof] eqn:Er.
      inversion H; subst. clear H. cbn [r_input r_skipped r_lines ps_pending].
      destruct (read_lines_sound _ _ _ _ _ _ Er) as [cns [E1 [E2 E3]]]. cbn [app] in E2. subst ls.
      split.
      * split; [reflexivity|]. split; [reflexivity|]. split.
        -- exists cns, rest. split; [exact E1 | reflexivity].
        -- intros Hb. pose proof (read_block _ lines [] [] Hb) as Hr. rewrite app_nil_r in Hr. cbn [app] in Hr.
           rewrite Hr in Er. inversion Er; subst. reflexivity.
      * destruct exits; [reflexivity|]. destruct Hok as [Hb|Hx]; [|discriminate].
        pose proof (read_block _ lines [] [] Hb) as Hr. rewrite app_nil_r in Hr. rewrite Hr in Er. inversion Er; subst. reflexivity.
    + rewrite Hp in H. unfold result_lines in H.
      assert (Hr : read_lines (termini t tsdb) [] [] = ([], [], match termini t tsdb with [] => false | _ => true end)).
      { destruct (termini t tsdb); reflexivity. }
      rewrite Hr in H. inversion H; subst. cbn. repeat split; auto.
Qed.

(* ---------------------------------------------------------------- *)
(* every sequence of interactions *)

Theorem interact_all_aligned t tsdb items : forall st rs st',
  ps_pending st = [] -> Forall (ev_ok t tsdb) (map snd items) ->
  interact_all t tsdb st items = (rs, st') ->
  Forall2 (own t tsdb) items rs /\ ps_pending st' = [].
Proof.
  induction items as [|[d ev] items IH]; intros st rs st' Hp Hok H.
  - cbn in H. inversion H; subst. split; [constructor | exact Hp].
  - cbn [interact_all] in H. cbn [map snd] in Hok. inversion Hok as [|? ? Hok1 Hok']; subst.
    destruct (interact t tsdb st d ev) as [r st1] eqn:E1.
    destruct (interact_all t tsdb st1 items) as [rs2 st2] eqn:E2.
    inversion H; subst. clear H.
    destruct (interact_own _ _ _ _ _ _ _ Hp Hok1 E1) as [Hown Hp1].
    destruct (IH _ _ _ Hp1 Hok' E2) as [Hall Hp2].
    split; [constructor; assumption | exact Hp2].
Qed.

(* exactly one response per input, in input order *)
Lemma interact_all_length t tsdb items : forall st, length (fst (interact_all t tsdb st items)) = length items.
Proof.
  induction items as [|[d ev] items IH]; intros st; [reflexivity|].
  cbn [interact_all]. destruct (interact t tsdb st d ev) as [r st1].
  specialize (IH st1). destruct (interact_all t tsdb st1 items) as [rs2 st2]. cbn [fst length] in *. rewrite IH. reflexivity.
Qed.

Lemma interact_all_inputs t tsdb items : forall st,
  map r_input (fst (interact_all t tsdb st items)) = map fst items.
Proof.
  induction items as [|[d ev] items IH]; intros st; [reflexivity|].
  cbn [interact_all]. destruct (interact t tsdb st d ev) as [r st1] eqn:E.
  specialize (IH st1). destruct (interact_all t tsdb st1 items) as [rs2 st2]. cbn [fst map] in *. rewrite IH. f_equal.
  unfold interact in E. destruct (validate t d); [inversion E; reflexivity|].
  destruct ev.
  - destruct (result_lines _ _) as [[? ?] ?]. inversion E; reflexivity.
  - destruct (result_lines _ _) as [[? ?] ?]. inversion E; reflexivity.
Qed.

(* unacceptable inputs are reported as skipped and never reach the processor *)
Lemma interact_skip t tsdb st d ev : validate t d = [] ->
  interact t tsdb st d ev = ({| r_input := d; r_skipped := true; r_lines := []; r_run := ps_run st |}, st).
Proof. intros H. unfold interact. rewrite H. reflexivity. Qed.

(* after the processor has exited, the next served request runs under a new run id *)
Lemma interact_restart t tsdb st d lines exits r st' :
  ps_alive st = false -> validate t d <> [] -> interact t tsdb st d (EvAnswer lines exits) = (r, st') ->
  r_run r = S (ps_run st) /\ ps_run st' = S (ps_run st).
Proof.
  intros Ha Hv H. unfold interact in H. destruct (validate t d); [contradiction Hv; reflexivity|].
  rewrite Ha in H. destruct (result_lines _ _) as [[? ?] ?]. inversion H; subst. split; reflexivity.
Qed.

Lemma interact_same_run t tsdb st d lines exits r st' :
  ps_alive st = true -> interact t tsdb st d (EvAnswer lines exits) = (r, st') ->
  r_run r = ps_run st /\ ps_run st' = ps_run st.
Proof.
  intros Ha H. unfold interact in H. destruct (validate t d); [inversion H; subst; split; reflexivity|].
  rewrite Ha in H. destruct (result_lines _ _) as [[? ?] ?]. inversion H; subst. split; reflexivity.
Qed.

(* run ids never go backwards *)
Lemma interact_run_mono t tsdb st d ev r st' : interact t tsdb st d ev = (r, st') ->
  (ps_run st <= r_run r)%nat /\ (r_run r <= ps_run st')%nat.
Proof.
  intros H. unfold interact in H. destruct (validate t d); [inversion H; subst; cbn; lia|].
  destruct ev.
  - destruct (result_lines _ _) as [[? ?] ?]. inversion H; subst. cbn. destruct (ps_alive st); lia.
  - destruct (result_lines _ _) as [[? ?] ?]. inversion H; subst. cbn. lia.
Qed.

Lemma close_status_spec crash st : close_status crash st = if ps_alive st then 0%Z else crash.
Proof. reflexivity. Qed.

(* non-vacuity: the parser protocol, an answer, an exit in the middle of the next one, a skipped input and a restart *)
Definition sline (l : list N) : str := l.
Definition ex_items : list (str * event) :=
  [ ([97]%N, EvAnswer [RUN_NOTE; [40;97;41]%N; []; []]%N false);
    ([98]%N, EvAnswer [[40;98]%N] true);
    ([32]%N, EvLost);
    ([99]%N, EvAnswer [RUN_NOTE; [40;99;41]%N; []; []]%N false) ].

Example ex_items_ok : Forall (ev_ok TParse true) (map snd ex_items).
Proof.
  repeat (apply Forall_cons; [cbn; first [exact I | left; reflexivity | right; reflexivity]|]). apply Forall_nil.
Qed.

Example ex_run :
  let '(rs, st) := interact_all TParse true init_state ex_items in
  map r_lines rs = [[[40;97;41]]; [[40;98]]; []; [[40;99;41]]]%N /\ map r_run rs = [0; 0; 0; 1]%nat
  /\ map r_skipped rs = [false; false; true; false] /\ ps_alive st = true /\ ps_pending st = [].
Proof. vm_compute. repeat split. Qed.

Lemma one_response_per_input t tsdb items st :
  length (fst (interact_all t tsdb st items)) = length items /\
  map r_input (fst (interact_all t tsdb st items)) = map fst items.
Proof. split; [apply interact_all_length | apply interact_all_inputs]. Qed.
