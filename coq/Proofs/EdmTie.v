(* Tie A for C18: _prf and the weighted totals regenerated from delphin/edm.py
   are the modelled ones, over Q and over binary64. *)
From Coq Require Import ZArith QArith PrimFloat Uint63 Bool.
From PyD Require Import Model.Edm Gen.EdmGen.

Lemma tie_prf_Q : forall g t b, gen_prf_Q g t b = prf_Q g t b.
Proof. reflexivity. Qed.
Lemma tie_prf_F : forall g t b, gen_prf_F g t b = prf_F g t b.
Proof. reflexivity. Qed.
Lemma tie_totals_Q : forall m w,
  gen_gold_total_Q m w = total_Q c_gold m w /\
  gen_test_total_Q m w = total_Q c_test m w /\
  gen_both_total_Q m w = total_Q c_both m w.
Proof. repeat split; reflexivity. Qed.
Lemma tie_totals_F : forall m w,
  gen_gold_total_F m w = total_F c_gold m w /\
  gen_test_total_F m w = total_F c_test m w /\
  gen_both_total_F m w = total_F c_both m w.
Proof. repeat split; reflexivity. Qed.
