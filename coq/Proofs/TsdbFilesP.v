(* Proofs about Model/TsdbFiles.v (C09, relation level). *)
From Coq Require Import List Bool.
From PyD Require Import Model.TsdbFiles.
Import ListNotations.

Section P.
Variable L : Type.
Notation rel := (rel L).

(* abstract state: the stored lines, and whether they are compressed *)
Definition abs (r : rel) : list L * bool := (content r, use_gz r).

Definition spec (s : list L * bool) (op : list L * bool * bool) : list L * bool :=
  let '(recs, append, gzip) := op in
  let '(c, z) := s in
  if append && (gzip || z) then (c, z)
  else if gzip && negb (is_nil recs) then (recs, true)
  else ((if append then c else []) ++ recs, false).

Theorem write_refines (r : rel) op : abs (apply_write r op) = spec (abs r) op.
Proof.
  destruct op as [[recs a] g]. unfold apply_write, write_rel, spec, abs; simpl.
  destruct (a && (g || use_gz r)) eqn:E; [reflexivity|].
  destruct (g && negb (is_nil recs)) eqn:G.
  - unfold content, read_rel, use_gz; simpl. reflexivity.
  - unfold content at 1, read_rel at 1, use_gz at 1; simpl.
    unfold use_gz at 1; simpl. f_equal.
    destruct a; [|reflexivity]. simpl in E. apply orb_false_iff in E. destruct E as [_ E].
    unfold content, read_rel. rewrite E. destruct (tx r); reflexivity.
Qed.

Theorem writes_refine ops : forall r,
  abs (fold_left (@apply_write L) ops r) = fold_left spec ops (abs r).
Proof.
  induction ops as [|op ops IH]; intros r; simpl; [reflexivity|].
  rewrite IH, write_refines. reflexivity.
Qed.

(* exactly one physical form after an accepted write; compressed iff
   requested and non-empty *)
Theorem one_form (r : rel) (recs : list L) a g r' : write_rel r recs a g = WOk r' ->
  (gz r' <> None <-> g = true /\ recs <> []) /\
  (tx r' = None <-> gz r' <> None) /\
  gz r' = (if g && negb (is_nil recs) then Some recs else None).
Proof.
  unfold write_rel. destruct (a && (g || use_gz r)); [discriminate|].
  destruct (g && negb (is_nil recs)) eqn:G; intros H; inversion H; subst; simpl.
  - apply andb_true_iff in G. destruct G as [G1 G2]. apply negb_true_iff in G2.
    repeat split; try congruence; try discriminate.
    destruct recs; [discriminate | congruence].
  - repeat split; try congruence; try discriminate.
    + intros [-> Hne]. destruct recs; [congruence | discriminate].
Qed.

(* a request is rejected exactly when it appends and either asks for
   compression or the current data is compressed; nothing changes then *)
Theorem rejected_iff (r : rel) (recs : list L) a g :
  write_rel r recs a g = WRejected <-> a = true /\ (g = true \/ use_gz r = true).
Proof.
  unfold write_rel. destruct (a && (g || use_gz r)) eqn:E.
  - apply andb_true_iff in E. destruct E as [-> E]. apply orb_true_iff in E. tauto.
  - destruct (g && negb (is_nil recs)); split; try discriminate;
      intros [-> H]; simpl in E; apply orb_false_iff in E; destruct E; destruct H; congruence.
Qed.

Theorem rejected_unchanged (r : rel) op :
  write_rel r (fst (fst op)) (snd (fst op)) (snd op) = WRejected -> apply_write r op = r.
Proof. unfold apply_write. intros ->. reflexivity. Qed.

(* reading what was last written: overwrite then appends *)
Theorem read_after_overwrite (r : rel) (recs : list L) g r' :
  write_rel r recs false g = WOk r' -> read_rel r' = Some recs.
Proof.
  unfold write_rel. simpl. destruct (g && negb (is_nil recs)); intros H; inversion H; subst; reflexivity.
Qed.

Theorem read_after_append (r : rel) (recs : list L) r' :
  write_rel r recs true false = WOk r' -> read_rel r' = Some (content r ++ recs).
Proof.
  unfold write_rel. simpl. destruct (use_gz r) eqn:E; [discriminate|].
  intros H; inversion H; subst. unfold read_rel at 1, use_gz at 1; simpl.
  unfold content, read_rel. rewrite E. destruct (tx r); reflexivity.
Qed.

End P.
