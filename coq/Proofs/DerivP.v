(* Proofs about Model/Deriv.v (C16). *)
From Coq Require Import List NArith ZArith Bool Arith Lia Permutation.
From PyD Require Import Base.Str Base.Dec Model.Deriv.
Import ListNotations.

Section tree_ind2.
Variable P : tree -> Prop.
Hypothesis Hn : forall id e sc a b h ty dtrs, Forall P dtrs -> P (TNode id e sc a b h ty dtrs).
Hypothesis Ht : forall f tk, P (TTerm f tk).
Fixpoint tree_ind2 (t : tree) : P t :=
  match t with
  | TNode id e sc a b h ty dtrs =>
      Hn id e sc a b h ty dtrs
         ((fix go (l : list tree) : Forall P l :=
             match l with
             | [] => Forall_nil P
             | x :: l' => Forall_cons x (tree_ind2 x) (go l')
             end) dtrs)
  | TTerm f tk => Ht f tk
  end.
End tree_ind2.

(* ---- the token-level round trip ---- *)

(* entities the format can carry: no '@', no leading '^' *)
Definition ent_ok (e : str) : Prop := ~ In 64%N e /\ (match e with x :: _ => x <> 94%N | [] => True end).

Fixpoint wf (t : tree) : Prop :=
  match t with
  | TTerm _ _ => True
  | TNode id e sc a b h ty dtrs =>
      ent_ok e /\
      (match id with
       | None => sc = [] /\ a = 0%Z /\ b = 0%Z /\ h = false /\ ty = None
       | Some _ => True end) /\
      (fix all (l : list tree) : Prop := match l with [] => True | x :: l' => wf x /\ all l' end) dtrs
  end.

Lemma wf_dtrs dtrs :
  (fix all (l : list tree) : Prop := match l with [] => True | x :: l' => wf x /\ all l' end) dtrs
  <-> Forall wf dtrs.
Proof.
  induction dtrs as [|x l IH]; simpl; [split; [constructor | trivial]|].
  rewrite IH. split; [intros [A B]; constructor; assumption | intros H; inversion H; auto].
Qed.

Lemma split_at_notin c s : ~ In c s -> split_at c s = (s, None).
Proof.
  induction s as [|x s IH]; intros H; simpl; [reflexivity|].
  destruct (N.eqb_spec x c) as [->|Hne]; [exfalso; apply H; left; reflexivity|].
  rewrite IH by (intros X; apply H; right; exact X). reflexivity.
Qed.

Lemma split_at_app c a b : ~ In c a -> split_at c (a ++ c :: b) = (a, Some b).
Proof.
  induction a as [|x a IH]; intros H; simpl.
  - rewrite N.eqb_refl. reflexivity.
  - destruct (N.eqb_spec x c) as [->|Hne]; [exfalso; apply H; left; reflexivity|].
    rewrite IH by (intros X; apply H; right; exact X). reflexivity.
Qed.

Lemma parse_entity_text udx e h ty : ent_ok e ->
  parse_entity (ent_text udx e h ty) =
  (e, udx && h, if udx then (match ty with Some (c :: r) => Some (c :: r) | _ => None end) else None).
Proof.
  intros [Hat Hcaret]. unfold parse_entity, ent_text.
  assert (Hhead : forall e', e' = e ->
            (match e' with x :: r => if N.eqb x 94 then (r, true) else (e', false) | [] => (e', false) end)
            = (e, false)).
  { intros e' ->. destruct e as [|x r]; [reflexivity|].
    destruct (N.eqb_spec x 94) as [->|]; [exfalso; apply Hcaret; reflexivity | reflexivity]. }
  destruct udx; simpl.
  - assert (Hat' : ~ In 64%N ((if h then [94%N] else []) ++ e)).
    { intros X. apply in_app_or in X. destruct X as [X|X]; [|contradiction].
      destruct h; simpl in X; [destruct X as [X|[]]; discriminate | destruct X]. }
    destruct ty as [[|c r]|].
    + rewrite app_nil_r. rewrite split_at_notin by exact Hat'.
      destruct h; simpl; [reflexivity|]. rewrite (Hhead e eq_refl). reflexivity.
    + rewrite app_assoc. rewrite split_at_app by exact Hat'.
      destruct h; simpl; [reflexivity|]. rewrite (Hhead e eq_refl). reflexivity.
    + rewrite app_nil_r. rewrite split_at_notin by exact Hat'.
      destruct h; simpl; [reflexivity|]. rewrite (Hhead e eq_refl). reflexivity.
  - rewrite split_at_notin by exact Hat. rewrite (Hhead e eq_refl). reflexivity.
Qed.

Definition push_all (f : frame) (ts : list tree) : frame :=
  {| f_id := f_id f; f_entity := f_entity f; f_score := f_score f; f_start := f_start f;
     f_stop := f_stop f; f_head := f_head f; f_type := f_type f; f_rev := rev ts ++ f_rev f |}.

Lemma add_dtr_push f t ts : push_all (add_dtr f t) ts = push_all f (t :: ts).
Proof. unfold push_all, add_dtr. simpl. rewrite <- app_assoc. reflexivity. Qed.

Lemma push_all_nil f : push_all f [] = f.
Proof. destruct f; reflexivity. Qed.

(* parsing the tokens of a subtree inside an open frame appends its normal form *)
Lemma build_sub udx t : wf t -> forall rest p st,
  build (toks_of udx t ++ rest) (p :: st) = build rest (add_dtr p (normalise udx t) :: st).
Proof.
  induction t as [id e sc a b h ty dtrs IH | f tk] using tree_ind2; intros Hwf rest p st.
  2:{ reflexivity. }
  simpl in Hwf. destruct Hwf as (Hent & Hroot & Hd). apply wf_dtrs in Hd.
  assert (Hdtrs : forall rest f0 st0,
            build (flat_map (toks_of udx) dtrs ++ rest) (f0 :: st0) =
            build rest (push_all f0 (map (normalise udx) dtrs) :: st0)).
  { clear -IH Hd. induction dtrs as [|d ds IHd]; intros rest f0 st0; simpl.
    - rewrite push_all_nil. reflexivity.
    - inversion IH as [|? ? Hx Hxs]; subst. inversion Hd as [|? ? Wx Wxs]; subst.
      rewrite <- app_assoc. rewrite (Hx Wx). rewrite (IHd Hxs Wxs). rewrite add_dtr_push. reflexivity. }
  simpl toks_of. destruct id as [i|].
  - cbn [app build]. rewrite (parse_entity_text udx e h ty Hent).
    rewrite <- app_assoc. rewrite Hdtrs. cbn [app build]. unfold close, push_all. simpl.
    rewrite app_nil_r, rev_involutive. reflexivity.
  - destruct Hroot as (-> & -> & -> & -> & ->). cbn [app build].
    rewrite <- app_assoc. rewrite Hdtrs. cbn [app build]. unfold close, push_all. simpl.
    rewrite app_nil_r, rev_involutive.
    unfold ent_text. destruct udx; simpl; rewrite ?app_nil_r; reflexivity.
Qed.

(* parsing the token stream of a whole derivation returns its normal form,
   whatever follows the closing parenthesis *)
Theorem build_toks udx id e sc a b h ty dtrs rest :
  wf (TNode id e sc a b h ty dtrs) ->
  build (toks_of udx (TNode id e sc a b h ty dtrs) ++ rest) [] =
  Some (normalise udx (TNode id e sc a b h ty dtrs)).
Proof.
  intros Hwf. pose proof Hwf as Hwf'. simpl in Hwf. destruct Hwf as (Hent & Hroot & Hd). apply wf_dtrs in Hd.
  assert (Hdtrs : forall ds, Forall wf ds -> forall rest f0 st0,
            build (flat_map (toks_of udx) ds ++ rest) (f0 :: st0) =
            build rest (push_all f0 (map (normalise udx) ds) :: st0)).
  { induction ds as [|d ds IHd]; intros Hds rest0 f0 st0; simpl.
    - rewrite push_all_nil. reflexivity.
    - inversion Hds as [|? ? Wx Wxs]; subst.
      rewrite <- app_assoc. rewrite (build_sub udx d Wx). rewrite (IHd Wxs). rewrite add_dtr_push. reflexivity. }
  simpl toks_of. destruct id as [i|].
  - cbn [app build]. rewrite (parse_entity_text udx e h ty Hent).
    rewrite <- app_assoc. rewrite (Hdtrs dtrs Hd). cbn [app build]. unfold close, push_all. simpl.
    rewrite app_nil_r, rev_involutive. reflexivity.
  - destruct Hroot as (-> & -> & -> & -> & ->). cbn [app build].
    rewrite <- app_assoc. rewrite (Hdtrs dtrs Hd). cbn [app build]. unfold close, push_all. simpl.
    rewrite app_nil_r, rev_involutive.
    unfold ent_text. destruct udx; simpl; rewrite ?app_nil_r; reflexivity.
Qed.

(* normalisation is idempotent and does not change what is printed: stability *)
Lemma normalise_idem udx t : normalise udx (normalise udx t) = normalise udx t.
Proof.
  induction t as [id e sc a b h ty dtrs IH | f tk] using tree_ind2; [|reflexivity].
  simpl. f_equal.
  - destruct udx, h; reflexivity.
  - destruct udx; [|reflexivity]. destruct ty as [[|c r]|]; reflexivity.
  - rewrite map_map. apply map_ext_in. intros x Hx. rewrite Forall_forall in IH. apply IH, Hx.
Qed.

Lemma ent_text_normalise udx e h ty :
  ent_text udx e (udx && h)
    (if udx then (match ty with Some (c :: r) => Some (c :: r) | _ => None end) else None)
  = ent_text udx e h ty.
Proof. unfold ent_text. destruct udx; simpl; [|reflexivity]. destruct ty as [[|c r]|]; reflexivity. Qed.

Theorem to_udf_normalise indent udx t : forall level,
  to_udf indent udx level (normalise udx t) = to_udf indent udx level t.
Proof.
  induction t as [id e sc a b h ty dtrs IH | f tk] using tree_ind2; intros level; [|reflexivity].
  simpl. rewrite ent_text_normalise.
  assert (E : flat_map (fun c => delim indent level ++ to_udf indent udx (S level) c)
                       (map (normalise udx) dtrs) =
              flat_map (fun c => delim indent level ++ to_udf indent udx (S level) c) dtrs).
  { clear -IH. induction dtrs as [|d ds IHd]; simpl; [reflexivity|].
    inversion IH as [|? ? Hx Hxs]; subst. rewrite Hx, (IHd Hxs). reflexivity. }
  rewrite E. reflexivity.
Qed.

(* ---- dictionary round trip ---- *)
Lemma seq_opts_map_inv (l : list tree) :
  Forall (fun t => forall d, to_dict t = Some d -> from_dict d = t) l ->
  forall ds, seq_opts (map to_dict l) = Some ds -> map from_dict ds = l.
Proof.
  induction l as [|x l IHl]; intros Hl ds E; simpl in E.
  - inversion E; reflexivity.
  - inversion Hl as [|? ? Hx Hxs]; subst.
    destruct (to_dict x) as [dx|] eqn:Ex; [|discriminate].
    destruct (seq_opts (map to_dict l)) as [r|] eqn:Er; [|discriminate].
    inversion E; subst. simpl. rewrite (Hx dx eq_refl), (IHl Hxs r eq_refl). reflexivity.
Qed.

Theorem from_to_dict t : forall d, to_dict t = Some d -> from_dict d = t.
Proof.
  induction t as [id e sc a b h ty dtrs IH | f tk] using tree_ind2; intros d H; [|discriminate].
  simpl in H.
  destruct dtrs as [|d1 rest].
  - inversion H; subst. reflexivity.
  - destruct d1 as [i1 e1 s1 a1 b1 h1 t1 dd1 | f1 tk1].
    + destruct (seq_opts (map to_dict (TNode i1 e1 s1 a1 b1 h1 t1 dd1 :: rest))) as [ds|] eqn:E; [|discriminate].
      inversion H; subst. simpl. f_equal. apply (seq_opts_map_inv _ IH ds E).
    + destruct rest as [|d2 rest].
      * inversion H; subst. reflexivity.
      * simpl in H. discriminate.
Qed.

(* ---- terminals / preterminals / internals ---- *)
(* trees in which a terminal is always an only daughter *)
Fixpoint shaped (t : tree) : Prop :=
  match t with
  | TTerm _ _ => True
  | TNode _ _ _ _ _ _ _ dtrs =>
      ((exists f tk, dtrs = [TTerm f tk]) \/ forallb (fun d => negb (is_term d)) dtrs = true) /\
      (fix all (l : list tree) : Prop := match l with [] => True | x :: l' => shaped x /\ all l' end) dtrs
  end.

Lemma shaped_dtrs dtrs :
  (fix all (l : list tree) : Prop := match l with [] => True | x :: l' => shaped x /\ all l' end) dtrs
  <-> Forall shaped dtrs.
Proof.
  induction dtrs as [|x l IH]; simpl; [split; [constructor | trivial]|].
  rewrite IH. split; [intros [A B]; constructor; assumption | intros H; inversion H; auto].
Qed.

Lemma flat_map_ext_in {A B} (f g : A -> list B) l :
  (forall x, In x l -> f x = g x) -> flat_map f l = flat_map g l.
Proof.
  induction l as [|x l IH]; intros H; simpl; [reflexivity|].
  rewrite (H x (or_introl eq_refl)), IH; [reflexivity|]. intros y Hy. apply H. right; exact Hy.
Qed.

Lemma flat_map_app_perm {A B} (f g : A -> list B) l :
  Permutation (flat_map (fun x => f x ++ g x) l) (flat_map f l ++ flat_map g l).
Proof.
  induction l as [|x l IH]; simpl; [constructor|].
  rewrite <- !app_assoc. apply Permutation_app_head.
  eapply Permutation_trans; [apply Permutation_app_head; exact IH|].
  rewrite !app_assoc. apply Permutation_app_tail. apply Permutation_app_comm.
Qed.

Lemma flat_map_perm_ext {A B} (f g : A -> list B) l :
  Forall (fun x => Permutation (f x) (g x)) l -> Permutation (flat_map f l) (flat_map g l).
Proof.
  induction 1; simpl; [constructor|]. apply Permutation_app; assumption.
Qed.

(* the nonterminal nodes are exactly the preterminals together with the internal nodes *)
Theorem partition t : shaped t ->
  Permutation (nonterminals t) (preterminals t ++ internals t).
Proof.
  induction t as [id e sc a b h ty dtrs IH | f tk] using tree_ind2; intros Hs; [|constructor].
  simpl in Hs. destruct Hs as [Hshape Hd]. apply shaped_dtrs in Hd.
  destruct Hshape as [(f & tk & ->)|Hnt].
  - simpl. constructor. constructor.
  - simpl.
    assert (Hex : existsb is_term dtrs = false).
    { destruct (existsb is_term dtrs) eqn:X; [|reflexivity].
      apply existsb_exists in X. destruct X as (d & Hd1 & Hd2).
      rewrite forallb_forall in Hnt. specialize (Hnt d Hd1). rewrite Hd2 in Hnt. discriminate. }
    rewrite Hex.
    assert (Epre : flat_map (fun d => if is_term d then [TNode id e sc a b h ty dtrs] else preterminals d) dtrs
                   = flat_map preterminals dtrs).
    { apply flat_map_ext_in. intros d Hd1. rewrite forallb_forall in Hnt. specialize (Hnt d Hd1).
      destruct (is_term d); [discriminate | reflexivity]. }
    rewrite Epre.
    apply Permutation_cons_app.
    eapply Permutation_trans; [|apply flat_map_app_perm].
    apply flat_map_perm_ext. rewrite Forall_forall in *. intros d Hd1. apply IH; [exact Hd1 | apply Hd, Hd1].
Qed.

(* the terminals are exactly the forms hanging under the preterminals *)
Theorem terminals_of_preterminals t : shaped t ->
  terminals t = flat_map (fun p => match p with TNode _ _ _ _ _ _ _ [TTerm f tk] => [TTerm f tk] | _ => [] end)
                         (preterminals t).
Proof.
  induction t as [id e sc a b h ty dtrs IH | f tk] using tree_ind2; intros Hs; [|reflexivity].
  simpl in Hs. destruct Hs as [Hshape Hd]. apply shaped_dtrs in Hd.
  destruct Hshape as [(f & tk & ->)|Hnt]; [reflexivity|].
  simpl.
  assert (E1 : flat_map (fun d => if is_term d then [d] else terminals d) dtrs = flat_map terminals dtrs).
  { apply flat_map_ext_in. intros d Hd1. rewrite forallb_forall in Hnt. specialize (Hnt d Hd1).
    destruct (is_term d); [discriminate | reflexivity]. }
  assert (E2 : flat_map (fun d => if is_term d then [TNode id e sc a b h ty dtrs] else preterminals d) dtrs
               = flat_map preterminals dtrs).
  { apply flat_map_ext_in. intros d Hd1. rewrite forallb_forall in Hnt. specialize (Hnt d Hd1).
    destruct (is_term d); [discriminate | reflexivity]. }
  rewrite E1, E2. clear E1 E2 Hnt.
  induction dtrs as [|d ds IHd]; simpl; [reflexivity|].
  inversion IH as [|? ? Hx Hxs]; subst. inversion Hd as [|? ? Sx Sxs]; subst.
  rewrite flat_map_app, (Hx Sx), (IHd Hxs Sxs). reflexivity.
Qed.
