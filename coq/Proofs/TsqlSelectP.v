(* C11: the evaluator is project . filter . join: given the join plan, the
   rows returned are exactly the joined rows that satisfy the condition, in
   order and with their multiplicities, projected to the requested columns. *)
From Coq Require Import List NArith ZArith Bool Arith Lia.
From PyD Require Import Base.Str Model.Tsdb Model.Hier Model.Tsql.
Import ListNotations.

(* the joined selection the plan produces *)
Definition joined_of (d : db) (plan : list (str * list str)) : option (option selection) :=
  fold_left (fun acc p => match acc with
                          | None => None
                          | Some sel => match find_rel d (fst p) with
                                        | Some r => option_map Some (join sel r (snd p))
                                        | None => None end
                          end) plan (Some None).

Definition holds (o : regex_oracle) (cols : list (str * tfield)) (rc : rcond) (row : list raw) : bool :=
  match eval o cols row rc with Some true => true | _ => false end.

Lemma filt_spec o cols rc : forall l out,
  (fix filt (l : list (list raw)) : option (list (list raw)) :=
     match l with
     | [] => Some []
     | row :: l' => match eval o cols row rc, filt l' with
                    | Some b, Some r => Some (if b then row :: r else r)
                    | _, _ => None end
     end) l = Some out ->
  out = filter (holds o cols rc) l /\ forall row, In row l -> eval o cols row rc <> None.
Proof.
  induction l as [|row l IH]; intros out H.
  - inversion H; subst. split; [reflexivity | intros r []].
  - destruct (eval o cols row rc) as [b|] eqn:E; [|discriminate].
    match type of H with match ?X with _ => _ end = _ => destruct X as [r|] eqn:F end; [|discriminate].
    inversion H; subst out; clear H. destruct (IH r eq_refl) as [A B]. split.
    + cbn [filter]. unfold holds at 1. rewrite E. destruct b; rewrite A; reflexivity.
    + intros r0 [<-|Hin]; [congruence | apply B; exact Hin].
Qed.

Theorem run_select_spec d o plan proj rc out :
  run_select d o plan proj (Some rc) = Some out ->
  exists s idxs, joined_of d plan = Some (Some s) /\
    seqo (map (sel_index (s_cols s)) proj) = Some idxs /\
    (forall row, In row (s_rows s) -> eval o (s_cols s) row rc <> None) /\
    out = map (fun row => map (nth_raw row) idxs) (filter (holds o (s_cols s) rc) (s_rows s)).
Proof.
  unfold run_select. fold (joined_of d plan).
  destruct (joined_of d plan) as [[s|]|]; try discriminate.
  match goal with |- match ?X with Some _ => _ | None => _ end = _ -> _ => destruct X as [rs|] eqn:F end; [|discriminate].
  destruct (seqo (map (sel_index (s_cols s)) proj)) as [idxs|] eqn:Eq; [|discriminate].
  intros H; inversion H; subst out; clear H.
  destruct (filt_spec o (s_cols s) rc _ _ F) as [A B].
  exists s, idxs. split; [reflexivity|]. split; [exact Eq|]. split; [exact B|]. rewrite A. reflexivity.
Qed.

(* without a condition every joined row is returned *)
Theorem run_select_all d o plan proj out :
  run_select d o plan proj None = Some out ->
  exists s idxs, joined_of d plan = Some (Some s) /\
    seqo (map (sel_index (s_cols s)) proj) = Some idxs /\
    out = map (fun row => map (nth_raw row) idxs) (s_rows s).
Proof.
  unfold run_select. fold (joined_of d plan).
  destruct (joined_of d plan) as [[s|]|]; try discriminate.
  destruct (seqo (map (sel_index (s_cols s)) proj)) as [idxs|] eqn:Eq; [|discriminate].
  intros H; inversion H; subst. exists s, idxs. auto.
Qed.
