(* Proofs about Model/Edm.v (C18). *)
From Coq Require Import List NArith ZArith Bool Lia QArith Permutation Lqa.
From PyD Require Import Base.Str Model.Edm.
Import ListNotations.
Open Scope nat_scope.

Lemma span_eqb_spec a b : span_eqb a b = true <-> a = b.
Proof.
  destruct a as [a1 a2], b as [b1 b2]. unfold span_eqb. simpl.
  rewrite andb_true_iff, !Z.eqb_eq. split; [intros [-> ->]; reflexivity | intros E; inversion E; auto].
Qed.

Lemma span_eqb_sym a b : span_eqb a b = span_eqb b a.
Proof. unfold span_eqb. rewrite (Z.eqb_sym (fst a)), (Z.eqb_sym (snd a)). reflexivity. Qed.

Lemma tval_eqb_spec a b : tval_eqb a b = true <-> a = b.
Proof.
  destruct a, b; simpl; try (split; congruence).
  - rewrite span_eqb_spec. split; congruence.
  - rewrite str_eqb_spec. split; congruence.
Qed.

Lemma triple_eqb_spec a b : triple_eqb a b = true <-> a = b.
Proof.
  destruct a as [s1 l1 v1], b as [s2 l2 v2]. unfold triple_eqb. simpl.
  rewrite !andb_true_iff, span_eqb_spec, str_eqb_spec, tval_eqb_spec.
  split; [intros [[-> ->] ->]; reflexivity | intros E; inversion E; auto].
Qed.

Lemma triple_eqb_refl a : triple_eqb a a = true.
Proof. apply triple_eqb_spec. reflexivity. Qed.

Lemma triple_eqb_false a b : triple_eqb a b = false <-> a <> b.
Proof.
  pose proof (triple_eqb_spec a b) as H. destruct (triple_eqb a b); split; intros X; try congruence.
  - exfalso. apply X. apply H. reflexivity.
  - intros E. apply H in E. discriminate.
Qed.

Definition cnt (x : triple) (l : list triple) : nat := length (filter (triple_eqb x) l).

Lemma cnt_cons x y l : cnt x (y :: l) = (if triple_eqb x y then 1 else 0) + cnt x l.
Proof. unfold cnt. simpl. destruct (triple_eqb x y); reflexivity. Qed.

Lemma cnt_pos_mem x l : existsb (triple_eqb x) l = true <-> 0 < cnt x l.
Proof.
  induction l as [|y l IH]; simpl.
  - unfold cnt; simpl. split; [discriminate | lia].
  - rewrite cnt_cons. destruct (triple_eqb x y); simpl; [split; [lia | reflexivity] | exact IH].
Qed.

Lemma cnt_remove_one x y l :
  cnt x (remove_one y l) =
  if triple_eqb x y && existsb (triple_eqb y) l then cnt x l - 1 else cnt x l.
Proof.
  induction l as [|z l IH]; simpl.
  - rewrite andb_false_r. reflexivity.
  - destruct (triple_eqb y z) eqn:Eyz.
    + apply triple_eqb_spec in Eyz. subst z. rewrite cnt_cons, orb_true_l, andb_true_r.
      destruct (triple_eqb x y); simpl; lia.
    + rewrite orb_false_l, !cnt_cons, IH.
      destruct (triple_eqb x y) eqn:Exy; simpl; [|reflexivity].
      apply triple_eqb_spec in Exy. subst y. rewrite Eyz. simpl.
      destruct (existsb (triple_eqb x) l) eqn:E; [|reflexivity].
      apply cnt_pos_mem in E. lia.
Qed.

(* multiset intersection: every triple occurs min(gold, test) times *)
Theorem inter_cnt x : forall g t, cnt x (inter g t) = Nat.min (cnt x g) (cnt x t).
Proof.
  induction g as [|y g IH]; intros t; simpl.
  - unfold cnt; reflexivity.
  - destruct (existsb (triple_eqb y) t) eqn:E.
    + rewrite !cnt_cons, IH, cnt_remove_one, E, andb_true_r.
      destruct (triple_eqb x y) eqn:Exy; [|lia].
      apply triple_eqb_spec in Exy. subst y. apply cnt_pos_mem in E. lia.
    + rewrite cnt_cons, IH.
      destruct (triple_eqb x y) eqn:Exy; [|lia].
      apply triple_eqb_spec in Exy. subst y.
      assert (cnt x t = 0).
      { destruct (cnt x t) eqn:C; [reflexivity|].
        assert (existsb (triple_eqb x) t = true) by (apply cnt_pos_mem; lia). congruence. }
      lia.
Qed.

Lemma remove_one_length x l : existsb (triple_eqb x) l = true ->
  S (length (remove_one x l)) = length l.
Proof.
  induction l as [|y l IH]; simpl; [discriminate|].
  destruct (triple_eqb x y); simpl; [reflexivity|]. intros H. rewrite IH; auto.
Qed.

Theorem inter_le_gold : forall g t, length (inter g t) <= length g.
Proof.
  induction g as [|y g IH]; intros t; simpl; [lia|].
  destruct (existsb (triple_eqb y) t); simpl; [specialize (IH (remove_one y t)) | specialize (IH t)]; lia.
Qed.

Theorem inter_le_test : forall g t, length (inter g t) <= length t.
Proof.
  induction g as [|y g IH]; intros t; simpl; [lia|].
  destruct (existsb (triple_eqb y) t) eqn:E; simpl.
  - specialize (IH (remove_one y t)). apply remove_one_length in E. lia.
  - apply IH.
Qed.

Theorem inter_self : forall g, inter g g = g.
Proof.
  induction g as [|y g IH]; simpl; [reflexivity|].
  rewrite triple_eqb_refl. simpl. rewrite IH. reflexivity.
Qed.

(* lists with the same multiplicities have the same length *)
Lemma cnt_ext_length : forall a b, (forall x, cnt x a = cnt x b) -> length a = length b.
Proof.
  induction a as [|y a IH]; intros b H.
  - destruct b as [|z b]; [reflexivity|]. specialize (H z). rewrite cnt_cons, triple_eqb_refl in H.
    unfold cnt in H; simpl in H. lia.
  - assert (E : existsb (triple_eqb y) b = true).
    { apply cnt_pos_mem. rewrite <- H, cnt_cons, triple_eqb_refl. lia. }
    simpl. rewrite <- (remove_one_length y b E). f_equal. apply IH.
    intros x. rewrite cnt_remove_one, E, andb_true_r. specialize (H x). rewrite cnt_cons in H.
    destruct (triple_eqb x y); lia.
Qed.

Theorem inter_length_ext a a' b b' :
  (forall x, cnt x a = cnt x a') -> (forall x, cnt x b = cnt x b') ->
  length (inter a b) = length (inter a' b').
Proof.
  intros Ha Hb. apply cnt_ext_length. intros x. rewrite !inter_cnt, Ha, Hb. reflexivity.
Qed.

Theorem inter_length_sym a b : length (inter a b) = length (inter b a).
Proof. apply cnt_ext_length. intros x. rewrite !inter_cnt. apply Nat.min_comm. Qed.

Lemma cnt_perm x a b : Permutation a b -> cnt x a = cnt x b.
Proof.
  induction 1; try reflexivity.
  - rewrite !cnt_cons. lia.
  - rewrite !cnt_cons. lia.
  - congruence.
Qed.

Theorem inter_length_perm a a' b b' : Permutation a a' -> Permutation b b' ->
  length (inter a b) = length (inter a' b').
Proof. intros Ha Hb. apply inter_length_ext; intros x; apply cnt_perm; assumption. Qed.

(* ---- counts ---- *)
Definition count_ok (c : count) : Prop := c_both c <= c_gold c /\ c_both c <= c_test c.
Definition mtch_ok (m : mtch) : Prop :=
  count_ok (m_name m) /\ count_ok (m_arg m) /\ count_ok (m_prop m) /\
  count_ok (m_const m) /\ count_ok (m_top m).

Lemma count_of_ok f g t : count_ok (count_of f g t).
Proof. unfold count_ok, count_of; simpl. split; [apply inter_le_gold | apply inter_le_test]. Qed.

Lemma top_count_ok g t : count_ok (top_count g t).
Proof.
  unfold top_count, count_ok. destruct (top_node g), (top_node t); simpl; try lia.
  destruct (span_eqb _ _); lia.
Qed.

Lemma match_pair_ok g t : mtch_ok (match_pair g t).
Proof.
  unfold mtch_ok, match_pair; simpl.
  repeat split; try apply count_of_ok; apply top_count_ok.
Qed.

Lemma count_add_ok a b : count_ok a -> count_ok b -> count_ok (count_add a b).
Proof. unfold count_ok, count_add; simpl; lia. Qed.

Lemma mtch_add_ok a b : mtch_ok a -> mtch_ok b -> mtch_ok (mtch_add a b).
Proof.
  unfold mtch_ok, mtch_add; simpl. intros (A1 & A2 & A3 & A4 & A5) (B1 & B2 & B3 & B4 & B5).
  repeat split; apply count_add_ok; assumption.
Qed.

Lemma mtch0_ok : mtch_ok mtch0.
Proof. unfold mtch_ok, mtch0, count_ok, count0; simpl; lia. Qed.

Lemma pair_match_ok ig it p : mtch_ok (pair_match ig it p).
Proof.
  destruct p as [[g|] [t|]]; simpl; try apply match_pair_ok; try apply mtch0_ok.
  - destruct it; [apply mtch0_ok | apply match_pair_ok].
  - destruct ig; [apply mtch0_ok | apply match_pair_ok].
Qed.

Theorem accumulate_ok golds tests ig it : mtch_ok (accumulate golds tests ig it).
Proof.
  unfold accumulate. generalize mtch0_ok. generalize mtch0.
  induction (zip_longest golds tests) as [|p l IH]; simpl; intros m Hm; [exact Hm|].
  apply IH. apply mtch_add_ok; [exact Hm | apply pair_match_ok].
Qed.

(* ---- scores over Q ---- *)
Local Open Scope Q_scope.

Definition w_nonneg (w : weights Q) : Prop :=
  0 <= w_name w /\ 0 <= w_arg w /\ 0 <= w_prop w /\ 0 <= w_const w /\ 0 <= w_top w.

Lemma nQ_nonneg n : 0 <= nQ n.
Proof. unfold nQ. change 0 with (inject_Z 0). rewrite <- Zle_Qle. lia. Qed.

Lemma nQ_le a b : (a <= b)%nat -> nQ a <= nQ b.
Proof. intros H. unfold nQ. rewrite <- Zle_Qle. lia. Qed.

Lemma sum5_nonneg a1 a2 a3 a4 a5 w1 w2 w3 w4 w5 :
  0 <= a1 -> 0 <= a2 -> 0 <= a3 -> 0 <= a4 -> 0 <= a5 ->
  0 <= w1 -> 0 <= w2 -> 0 <= w3 -> 0 <= w4 -> 0 <= w5 ->
  0 <= a1 * w1 + a2 * w2 + a3 * w3 + a4 * w4 + a5 * w5.
Proof.
  intros A1 A2 A3 A4 A5 W1 W2 W3 W4 W5.
  pose proof (Qmult_le_0_compat a1 w1 A1 W1). pose proof (Qmult_le_0_compat a2 w2 A2 W2).
  pose proof (Qmult_le_0_compat a3 w3 A3 W3). pose proof (Qmult_le_0_compat a4 w4 A4 W4).
  pose proof (Qmult_le_0_compat a5 w5 A5 W5). lra.
Qed.

Lemma sum5_le a1 a2 a3 a4 a5 b1 b2 b3 b4 b5 w1 w2 w3 w4 w5 :
  a1 <= b1 -> a2 <= b2 -> a3 <= b3 -> a4 <= b4 -> a5 <= b5 ->
  0 <= w1 -> 0 <= w2 -> 0 <= w3 -> 0 <= w4 -> 0 <= w5 ->
  a1 * w1 + a2 * w2 + a3 * w3 + a4 * w4 + a5 * w5 <=
  b1 * w1 + b2 * w2 + b3 * w3 + b4 * w4 + b5 * w5.
Proof.
  intros A1 A2 A3 A4 A5 W1 W2 W3 W4 W5.
  pose proof (Qmult_le_compat_r a1 b1 w1 A1 W1). pose proof (Qmult_le_compat_r a2 b2 w2 A2 W2).
  pose proof (Qmult_le_compat_r a3 b3 w3 A3 W3). pose proof (Qmult_le_compat_r a4 b4 w4 A4 W4).
  pose proof (Qmult_le_compat_r a5 b5 w5 A5 W5). lra.
Qed.

Lemma total_nonneg sel m w : w_nonneg w -> 0 <= total_Q sel m w.
Proof.
  intros (A & B & C & D & E). unfold total_Q.
  apply sum5_nonneg; auto; apply nQ_nonneg.
Qed.

Lemma total_both_le m w : w_nonneg w -> mtch_ok m ->
  total_Q c_both m w <= total_Q c_gold m w /\ total_Q c_both m w <= total_Q c_test m w.
Proof.
  intros (A & B & C & D & E) ((N1 & N2) & (A1 & A2) & (P1 & P2) & (C1 & C2) & (T1 & T2)).
  unfold total_Q.
  split; apply sum5_le; auto; apply nQ_le; assumption.
Qed.

Theorem prf_bounds g t b : 0 <= b -> b <= t -> b <= g ->
  let '(p, r, f) := prf_Q g t b in
  0 <= p <= 1 /\ 0 <= r <= 1 /\ 0 <= f <= 1.
Proof.
  intros Hb Ht Hg. unfold prf_Q.
  destruct (Qeq_bool t 0) eqn:Et; simpl; [lra|].
  destruct (Qeq_bool g 0) eqn:Eg; simpl; [lra|].
  destruct (Qeq_bool b 0) eqn:Eb; simpl; [lra|].
  apply Qeq_bool_neq in Et, Eg, Eb.
  assert (Hb' : 0 < b) by (apply Qle_lt_or_eq in Hb; destruct Hb as [H|H]; [exact H | exfalso; apply Eb; symmetry; exact H]).
  assert (Ht' : 0 < t) by lra. assert (Hg' : 0 < g) by lra.
  assert (Hp0 : 0 < b / t) by (apply Qlt_shift_div_l; lra).
  assert (Hr0 : 0 < b / g) by (apply Qlt_shift_div_l; lra).
  assert (Hp1 : b / t <= 1) by (apply Qle_shift_div_r; lra).
  assert (Hr1 : b / g <= 1) by (apply Qle_shift_div_r; lra).
  set (p := b / t) in *. set (r := b / g) in *.
  repeat split; try lra.
  - apply Qle_shift_div_l; [lra|]. nra.
  - apply Qle_shift_div_r; [lra|]. nra.
Qed.

Theorem compute_bounds golds tests w ig it : w_nonneg w ->
  let '(p, r, f) := compute_Q golds tests w ig it in
  0 <= p <= 1 /\ 0 <= r <= 1 /\ 0 <= f <= 1.
Proof.
  intros Hw. unfold compute_Q.
  pose proof (accumulate_ok golds tests ig it) as Hok.
  pose proof (total_both_le _ w Hw Hok) as [A B].
  apply prf_bounds; auto. apply total_nonneg; exact Hw.
Qed.

(* ---- exchanging gold and test ---- *)
Local Close Scope Q_scope.
Definition cswap (c : count) : count := {| c_gold := c_test c; c_test := c_gold c; c_both := c_both c |}.
Definition mswap (m : mtch) : mtch :=
  {| m_name := cswap (m_name m); m_arg := cswap (m_arg m); m_prop := cswap (m_prop m);
     m_const := cswap (m_const m); m_top := cswap (m_top m) |}.

Lemma count_of_swap f g t : count_of f t g = cswap (count_of f g t).
Proof. unfold count_of, cswap; simpl. f_equal. apply inter_length_sym. Qed.

Lemma top_count_swap g t : top_count t g = cswap (top_count g t).
Proof.
  unfold top_count, cswap. destruct (top_node g), (top_node t); simpl; try reflexivity.
  rewrite span_eqb_sym. reflexivity.
Qed.

Lemma match_pair_swap g t : match_pair t g = mswap (match_pair g t).
Proof.
  unfold match_pair, mswap; simpl. rewrite !(count_of_swap _ g t), top_count_swap. reflexivity.
Qed.

Lemma mswap_add a b : mswap (mtch_add a b) = mtch_add (mswap a) (mswap b).
Proof. reflexivity. Qed.

Definition pswap {A} (p : option A * option A) := (snd p, fst p).

Lemma zip_longest_nil_r {A} (a : list (option A)) :
  zip_longest a [] = map (fun x => (x, None)) a.
Proof. induction a as [|x a IH]; simpl; [reflexivity|]. rewrite IH. reflexivity. Qed.

Lemma zip_longest_nil_l {A} (b : list (option A)) :
  zip_longest [] b = map (fun y => (None, y)) b.
Proof. destruct b; reflexivity. Qed.

Lemma zip_longest_swap {A} : forall (a b : list (option A)),
  zip_longest b a = map pswap (zip_longest a b).
Proof.
  induction a as [|x a IH]; intros b.
  - rewrite zip_longest_nil_r, zip_longest_nil_l, map_map. reflexivity.
  - destruct b as [|y b].
    + rewrite zip_longest_nil_r, zip_longest_nil_l, map_map. reflexivity.
    + simpl. rewrite IH. reflexivity.
Qed.

Lemma pair_match_swap ig it p : pair_match it ig (pswap p) = mswap (pair_match ig it p).
Proof.
  destruct p as [[g|] [t|]]; unfold pswap; simpl; try reflexivity.
  - apply match_pair_swap.
  - destruct it; [reflexivity | apply match_pair_swap].
  - destruct ig; [reflexivity | apply match_pair_swap].
Qed.

Theorem accumulate_swap golds tests ig it :
  accumulate tests golds it ig = mswap (accumulate golds tests ig it).
Proof.
  unfold accumulate. rewrite zip_longest_swap.
  change mtch0 with (mswap mtch0) at 1. generalize mtch0.
  induction (zip_longest golds tests) as [|p l IH]; intros m; cbn [map fold_left]; [reflexivity|].
  rewrite pair_match_swap, <- mswap_add. apply IH.
Qed.

Local Open Scope Q_scope.

Theorem compute_swap golds tests w ig it :
  let '(p, r, f) := compute_Q golds tests w ig it in
  let '(p', r', f') := compute_Q tests golds w it ig in
  p' = r /\ r' = p /\ f' == f.
Proof.
  unfold compute_Q. rewrite (accumulate_swap golds tests ig it).
  set (m := accumulate golds tests ig it).
  change (total_Q c_gold (mswap m) w) with (total_Q c_test m w).
  change (total_Q c_test (mswap m) w) with (total_Q c_gold m w).
  change (total_Q c_both (mswap m) w) with (total_Q c_both m w).
  unfold prf_Q.
  destruct (Qeq_bool (total_Q c_test m w) 0), (Qeq_bool (total_Q c_gold m w) 0),
    (Qeq_bool (total_Q c_both m w) 0); simpl; try (repeat split; reflexivity).
  split; [reflexivity|]. split; [reflexivity|].
  set (p := total_Q c_both m w / total_Q c_test m w).
  set (r := total_Q c_both m w / total_Q c_gold m w).
  assert (E1 : r * p == p * r) by ring. assert (E2 : r + p == p + r) by ring.
  rewrite E1, E2. reflexivity.
Qed.

(* ---- identical lists ---- *)
Local Close Scope Q_scope.
Definition count_eq (c : count) : Prop := c_gold c = c_both c /\ c_test c = c_both c.
Definition mtch_eq (m : mtch) : Prop :=
  count_eq (m_name m) /\ count_eq (m_arg m) /\ count_eq (m_prop m) /\
  count_eq (m_const m) /\ count_eq (m_top m).

Lemma match_pair_self g : mtch_eq (match_pair g g).
Proof.
  unfold mtch_eq, match_pair, count_eq, count_of; simpl. rewrite !inter_self.
  repeat split; try reflexivity; unfold top_count; destruct (top_node g) as [n|]; simpl;
    try reflexivity; assert (span_eqb (n_span n) (n_span n) = true) as -> by (apply span_eqb_spec; reflexivity);
    reflexivity.
Qed.

Lemma mtch_add_eq a b : mtch_eq a -> mtch_eq b -> mtch_eq (mtch_add a b).
Proof.
  unfold mtch_eq, count_eq, mtch_add, count_add; simpl.
  intros ((?&?)&(?&?)&(?&?)&(?&?)&(?&?)) ((?&?)&(?&?)&(?&?)&(?&?)&(?&?)).
  repeat split; lia.
Qed.

Lemma zip_longest_self {A} (l : list (option A)) : zip_longest l l = map (fun x => (x, x)) l.
Proof. induction l as [|x l IH]; simpl; [reflexivity|]. rewrite IH. reflexivity. Qed.

Theorem accumulate_self l ig it : mtch_eq (accumulate l l ig it).
Proof.
  unfold accumulate. rewrite zip_longest_self.
  assert (H0 : mtch_eq mtch0) by (unfold mtch_eq, count_eq; simpl; tauto).
  revert H0. generalize mtch0.
  induction l as [|x l IH]; simpl; intros m Hm; [exact Hm|].
  apply IH. apply mtch_add_eq; [exact Hm|].
  destruct x as [g|]; simpl; [apply match_pair_self|].
  unfold mtch_eq, count_eq; simpl; tauto.
Qed.

Local Open Scope Q_scope.
Theorem compute_identical l w ig it :
  ~ total_Q c_both (accumulate l l ig it) w == 0 ->
  let '(p, r, f) := compute_Q l l w ig it in p == 1 /\ r == 1 /\ f == 1.
Proof.
  intros Hpos. unfold compute_Q.
  pose proof (accumulate_self l ig it) as ((G1&T1)&(G2&T2)&(G3&T3)&(G4&T4)&(G5&T5)).
  set (m := accumulate l l ig it) in *.
  assert (EG : total_Q c_gold m w = total_Q c_both m w).
  { unfold total_Q. rewrite G1, G2, G3, G4, G5. reflexivity. }
  assert (ET : total_Q c_test m w = total_Q c_both m w).
  { unfold total_Q. rewrite T1, T2, T3, T4, T5. reflexivity. }
  rewrite EG, ET. set (b := total_Q c_both m w) in *.
  unfold prf_Q. destruct (Qeq_bool b 0) eqn:E.
  - apply Qeq_bool_iff in E. contradiction.
  - simpl. assert (P : b / b == 1) by (field; exact Hpos).
    repeat split; try exact P. rewrite P. reflexivity.
Qed.
Local Close Scope Q_scope.

(* ---- reordering the nodes of a structure ---- *)
Lemma find_node_spec ns i : NoDup (map n_id ns) ->
  forall n, find_node ns i = Some n <-> In n ns /\ n_id n = i.
Proof.
  induction ns as [|m ns IH]; simpl; intros Hnd n.
  - split; [discriminate | tauto].
  - inversion Hnd as [|? ? Hnot Hnd']; subst. specialize (IH Hnd').
    destruct (find_node ns i) as [k|].
    + destruct (proj1 (IH k) eq_refl) as [Hk Hki]. split.
      * intros H; inversion H; subst k. tauto.
      * intros [[->|Hin] Hid].
        -- exfalso. apply Hnot. rewrite Hid, <- Hki. apply in_map. exact Hk.
        -- apply IH. tauto.
    + destruct (str_eqb (n_id m) i) eqn:Em.
      * apply str_eqb_spec in Em. split.
        -- intros H; inversion H; subst. tauto.
        -- intros [[->|Hin] Hid]; [reflexivity|].
           assert (X : None = Some n) by (apply IH; tauto). discriminate.
      * split; [discriminate|]. intros [[->|Hin] Hid].
        -- apply str_eqb_spec in Hid. congruence.
        -- assert (X : None = Some n) by (apply IH; tauto). discriminate.
Qed.

Lemma find_node_perm ns ns' i : NoDup (map n_id ns) -> Permutation ns ns' ->
  find_node ns' i = find_node ns i.
Proof.
  intros Hnd Hp.
  assert (Hnd' : NoDup (map n_id ns')).
  { eapply Permutation_NoDup; [apply Permutation_map; exact Hp | exact Hnd]. }
  destruct (find_node ns i) as [n|] eqn:E.
  - apply (find_node_spec ns i Hnd) in E. apply (find_node_spec ns' i Hnd').
    destruct E as [Hin Hid]. split; [eapply Permutation_in; eauto | exact Hid].
  - destruct (find_node ns' i) as [n|] eqn:E'; [|reflexivity].
    apply (find_node_spec ns' i Hnd') in E'. destruct E' as [Hin Hid].
    assert (X : find_node ns i = Some n).
    { apply (find_node_spec ns i Hnd). split; [|exact Hid].
      eapply Permutation_in; [apply Permutation_sym; exact Hp | exact Hin]. }
    congruence.
Qed.

Definition with_nodes (s : srep) (ns : list node) : srep :=
  match s with SEds t _ => SEds t ns | SDmrs t _ l => SDmrs t ns l end.

Lemma flat_map_perm {A B} (f : A -> list B) l l' :
  Permutation l l' -> Permutation (flat_map f l) (flat_map f l').
Proof.
  induction 1; simpl; auto.
  - apply Permutation_app_head. assumption.
  - rewrite !app_assoc. apply Permutation_app_tail. apply Permutation_app_comm.
  - eapply Permutation_trans; eassumption.
Qed.

Theorem triples_perm s ns' : NoDup (map n_id (sr_nodes s)) -> Permutation (sr_nodes s) ns' ->
  Permutation (names s) (names (with_nodes s ns')) /\
  Permutation (arguments s) (arguments (with_nodes s ns')) /\
  Permutation (properties s) (properties (with_nodes s ns')) /\
  Permutation (constants s) (constants (with_nodes s ns')) /\
  top_node (with_nodes s ns') = top_node s.
Proof.
  intros Hnd Hp.
  assert (Hn : sr_nodes (with_nodes s ns') = ns') by (destruct s; reflexivity).
  assert (Ht : sr_top (with_nodes s ns') = sr_top s) by (destruct s; reflexivity).
  repeat split.
  - unfold names. rewrite Hn. apply Permutation_map. exact Hp.
  - unfold arguments. rewrite Hn.
    assert (Ha : forall n, args_of (with_nodes s ns') n = args_of s n) by (destruct s; reflexivity).
    eapply Permutation_trans; [apply flat_map_perm; exact Hp|].
    apply Permutation_refl'. apply flat_map_ext. intros n. rewrite Ha.
    apply flat_map_ext. intros rt. rewrite (find_node_perm _ _ _ Hnd Hp). reflexivity.
  - unfold properties. rewrite Hn. apply flat_map_perm. exact Hp.
  - unfold constants. rewrite Hn. apply flat_map_perm. exact Hp.
  - unfold top_node. rewrite Ht, Hn. destruct (sr_top s); [|reflexivity].
    apply find_node_perm; assumption.
Qed.

Theorem match_pair_perm g t gn tn :
  NoDup (map n_id (sr_nodes g)) -> Permutation (sr_nodes g) gn ->
  NoDup (map n_id (sr_nodes t)) -> Permutation (sr_nodes t) tn ->
  match_pair (with_nodes g gn) (with_nodes t tn) = match_pair g t.
Proof.
  intros Hg Pg Ht Pt.
  destruct (triples_perm g gn Hg Pg) as (G1 & G2 & G3 & G4 & G5).
  destruct (triples_perm t tn Ht Pt) as (T1 & T2 & T3 & T4 & T5).
  unfold match_pair, count_of, top_count. rewrite G5, T5.
  rewrite <- (Permutation_length G1), <- (Permutation_length G2),
          <- (Permutation_length G3), <- (Permutation_length G4),
          <- (Permutation_length T1), <- (Permutation_length T2),
          <- (Permutation_length T3), <- (Permutation_length T4).
  rewrite <- (inter_length_perm _ _ _ _ G1 T1), <- (inter_length_perm _ _ _ _ G2 T2),
          <- (inter_length_perm _ _ _ _ G3 T3), <- (inter_length_perm _ _ _ _ G4 T4).
  reflexivity.
Qed.
