(* C09: what the read interfaces of a database return for a relation whose lines were
   written from records. *)
From Coq Require Import List NArith ZArith Bool Arith.
From PyD Require Import Base.Str Base.Dec Model.Tsdb Model.TsdbRead Proofs.TsdbP.
Import ListNotations.

(* reading back the lines written from records gives the records (the empty string and None coincide) *)
Theorem read_written recs : Forall (fun r : list raw => r <> []) recs ->
  read_raw (map join_raw recs) = Some (map (map none_if_empty) recs).
Proof.
  unfold read_raw. induction recs as [|r recs IH]; intros H; [reflexivity|].
  inversion H as [|? ? Hr H']; subst. cbn [map sequence]. rewrite (split_join r Hr).
  rewrite (IH H'). reflexivity.
Qed.

(* the automatically cast read is the cast of the raw read, record by record *)
Theorem read_cast_spec fields lines recs : read_raw lines = Some recs ->
  read_cast fields lines = sequence (map (cast_record fields) recs).
Proof. intros H. unfold read_cast. rewrite H. reflexivity. Qed.

(* a column selection is the projection of the raw read *)
Theorem select_raw_spec fields cols lines idx recs :
  indices_of fields cols = Some idx -> read_raw lines = Some recs ->
  select_raw fields cols lines = sequence (map (fun rec => sequence (map (fun i => nth_error rec i) idx)) recs).
Proof. intros H1 H2. unfold select_raw. rewrite H1, H2. reflexivity. Qed.

(* hence: selecting columns from the lines written from records projects those records *)
Corollary select_written fields cols recs idx : Forall (fun r : list raw => r <> []) recs ->
  indices_of fields cols = Some idx ->
  select_raw fields cols (map join_raw recs)
  = sequence (map (fun rec => sequence (map (fun i => nth_error (map none_if_empty rec) i) idx)) recs).
Proof.
  intros H Hi. rewrite (select_raw_spec fields cols _ idx _ Hi (read_written recs H)).
  rewrite map_map. reflexivity.
Qed.

Example read_example :
  read_raw (map join_raw [[Some [97;64;98]%N; None]; [Some []; Some [120]%N]])
  = Some [[Some [97;64;98]%N; None]; [None; Some [120]%N]].
Proof. vm_compute. reflexivity. Qed.
