(* C14: provenance of characters carried over through capture groups that the
   template references in order (the tracked segments): each such character is
   attributed to exactly its original position. *)
From Coq Require Import List NArith ZArith Bool Arith Lia.
From PyD Require Import Base.Str Base.PySlice Model.Repp Proofs.ReppP.
Import ListNotations.
Open Scope nat_scope.

(* (offset inside the replacement, original position) of every character
   copied from a participating group of the tracked segments *)
Fixpoint grp_pairs (s : str) (m : mtch) (segs : list seg) (off : nat) : list (nat * nat) :=
  match segs with
  | [] => []
  | SGrp g :: r =>
      match grp m g with
      | Some (a, _) => map (fun k => (off + k, a + k)) (seq 0 (length (grp_text s m g)))
      | None => []
      end ++ grp_pairs s m r (off + length (grp_text s m g))
  | SLit l :: r => grp_pairs s m r (off + length l)
  end.

Lemma tracked_loop_prefix s m shift : forall segs start endp delta acc start' delta' acc',
  tracked_loop s m shift segs start endp delta acc = Some (start', delta', acc') ->
  exists x y, p_smap acc' = p_smap acc ++ x /\ p_emap acc' = p_emap acc ++ y.
Proof.
  induction segs as [|sg segs IH]; intros start endp delta acc start' delta' acc' H; cbn [tracked_loop] in H.
  - inversion H; subst. exists [], []. rewrite !app_nil_r. auto.
  - destruct sg as [lit|g].
    + apply IH in H. destruct H as (x & y & Hx & Hy). cbn [p_smap p_emap] in Hx, Hy.
      rewrite <- app_assoc in Hx, Hy. eauto.
    + destruct (0 <=? grp_start m g)%Z; apply IH in H; destruct H as (x & y & Hx & Hy);
        cbn [p_smap p_emap] in Hx, Hy; rewrite <- app_assoc in Hx, Hy; eauto.
Qed.

Lemma grp_text_none s m g : grp m g = None -> grp_text s m g = [].
Proof. unfold grp_text. intros ->. reflexivity. Qed.

Lemma grp_start_some m g a b : grp m g = Some (a, b) -> grp_start m g = Z.of_nat a.
Proof. unfold grp_start. intros ->. reflexivity. Qed.

Lemma nth_error_repeat_in' {A} (x : A) n k : k < n -> nth_error (repeat x n) k = Some x.
Proof. revert k. induction n as [|n IH]; intros k H; [lia|]. destruct k; simpl; [reflexivity|]. apply IH. lia. Qed.

Lemma tracked_grp s m shift (base : nat) : forall segs start endp delta acc start' delta' acc',
  tracked_loop s m shift segs start endp delta acc = Some (start', delta', acc') ->
  length (p_smap acc) = length (p_sub acc) -> length (p_emap acc) = length (p_sub acc) ->
  (shift + delta = start - Z.of_nat base - Z.of_nat (length (p_sub acc)))%Z ->
  forall j o, In (j, o) (grp_pairs s m segs (length (p_sub acc))) ->
    nth_error (p_smap acc') j = Some (Z.of_nat o - Z.of_nat (base + j))%Z /\
    nth_error (p_emap acc') j = Some (Z.of_nat o - Z.of_nat (base + j))%Z.
Proof.
  induction segs as [|sg segs IH]; intros start endp delta acc start' delta' acc' H Hs He Hinv j o Hin;
    cbn [tracked_loop grp_pairs] in H, Hin; [destruct Hin|].
  destruct sg as [lit|g].
  - (* literal *)
    refine (IH _ _ _ _ _ _ _ H _ _ _ j o _); cbn [p_sub p_smap p_emap].
    + rewrite !app_length. unfold insert_smap. rewrite map_length, seq_length. lia.
    + rewrite !app_length. unfold insert_emap. rewrite map_length, seq_length. lia.
    + rewrite app_length. lia.
    + rewrite app_length. exact Hin.
  - destruct (grp m g) as [[a b]|] eqn:Eg.
    + rewrite (grp_start_some _ _ _ _ Eg) in H.
      assert (Hpos : (0 <=? Z.of_nat a)%Z = true) by (apply Z.leb_le; lia). rewrite Hpos in H.
      set (lit := grp_text s m g) in *.
      set (d1 := (delta + (Z.of_nat a - start))%Z) in *.
      set (acc1 := {| p_sub := p_sub acc ++ lit;
                      p_smap := p_smap acc ++ copy_map (length lit) (shift + d1);
                      p_emap := p_emap acc ++ copy_map (length lit) (shift + d1); p_delta := 0%Z |}) in *.
      apply in_app_or in Hin. destruct Hin as [Hin|Hin].
      * apply in_map_iff in Hin. destruct Hin as (k & E & Hk). inversion E; subst j o. apply in_seq in Hk.
        destruct (tracked_loop_prefix _ _ _ _ _ _ _ _ _ _ _ H) as (x & y & Hx & Hy).
        rewrite Hx, Hy. unfold acc1; cbn [p_smap p_emap]. rewrite <- !app_assoc.
        split; (rewrite nth_error_app2 by lia); rewrite ?Hs, ?He;
          replace (length (p_sub acc) + k - length (p_sub acc)) with k by lia;
          unfold copy_map; (rewrite nth_error_app1 by (rewrite repeat_length; lia));
          (rewrite nth_error_repeat_in' by lia); f_equal; unfold d1; lia.
      * refine (IH _ _ _ _ _ _ _ H _ _ _ j o _); unfold acc1; cbn [p_sub p_smap p_emap].
        -- rewrite !app_length. unfold copy_map. rewrite repeat_length. lia.
        -- rewrite !app_length. unfold copy_map. rewrite repeat_length. lia.
        -- rewrite app_length. unfold d1. lia.
        -- rewrite app_length. exact Hin.
    + (* the group did not participate: nothing is copied *)
      assert (Hst : grp_start m g = (-1)%Z) by (unfold grp_start; rewrite Eg; reflexivity).
      rewrite Hst in H. cbn [Z.leb Z.compare] in H.
      assert (Hl : grp_text s m g = []) by (apply grp_text_none; exact Eg). rewrite Hl in *.
      cbn [app length] in Hin. rewrite Nat.add_0_r in Hin.
      refine (IH _ _ _ _ _ _ _ H _ _ _ j o _); cbn [p_sub p_smap p_emap copy_map repeat length].
      * rewrite !app_nil_r. exact Hs.
      * rewrite !app_nil_r. exact He.
      * rewrite app_nil_r. cbn [length]. lia.
      * rewrite app_nil_r. exact Hin.
Qed.

(* one match *)
Lemma process_match_grp s m shift tr un p (base : nat) :
  process_match s m shift tr un = Some p -> shift = (Z.of_nat (m_start m) - Z.of_nat base)%Z ->
  forall j o, In (j, o) (grp_pairs s m tr 0) ->
    nth_error (p_smap p) j = Some (Z.of_nat o - Z.of_nat (base + j))%Z /\
    nth_error (p_emap p) j = Some (Z.of_nat o - Z.of_nat (base + j))%Z.
Proof.
  unfold process_match. destruct (process_match_raw s m shift tr un) as [q|] eqn:Eq; [|discriminate].
  intros H Hsh j o Hin. inversion H; subst p; clear H. cbn [p_smap p_emap].
  unfold process_match_raw in Eq.
  destruct tr as [|t0 tr']; [destruct Hin|].
  set (tr := t0 :: tr') in *.
  destruct (tracked_loop s m shift tr (Z.of_nat (m_start m)) (first_group_start m tr) 0
              {| p_sub := []; p_smap := []; p_emap := []; p_delta := 0 |})
    as [[[start delta] acc]|] eqn:E; [|discriminate].
  assert (G : nth_error (p_smap acc) j = Some (Z.of_nat o - Z.of_nat (base + j))%Z /\
              nth_error (p_emap acc) j = Some (Z.of_nat o - Z.of_nat (base + j))%Z).
  { apply (tracked_grp s m shift base _ _ _ _ _ _ _ _ E); cbn [p_sub p_smap p_emap length]; try reflexivity; [lia | exact Hin]. }
  destruct G as [G1 G2].
  assert (Hj : j < length (p_smap acc) /\ j < length (p_emap acc)).
  { split; apply nth_error_Some; congruence. }
  destruct un as [|u0 un']; inversion Eq; subst q; cbn [p_smap p_emap].
  - split; assumption.
  - split; rewrite nth_error_app1 by apply Hj; assumption.
Qed.

(* all matches of one rule application: (output position, original position) *)
Fixpoint all_grp_pairs (s : str) (ms : list mtch) (tr un : list seg) (pos outpos : nat) : list (nat * nat) :=
  match ms with
  | [] => []
  | m :: ms' =>
      let base := outpos + (m_start m - pos) in
      map (fun p => (base + fst p, snd p)) (grp_pairs s m tr 0) ++
      all_grp_pairs s ms' tr un (m_end m) (base + length (expand s m (tr ++ un)))
  end.

Theorem group_provenance s tr un : forall ms pos shift acc r,
  rule_loop s ms tr un pos shift acc = Some r ->
  ms_ok s ms pos ->
  length (r_smap acc) = S (length (r_out acc)) -> length (r_emap acc) = S (length (r_out acc)) ->
  shift = (Z.of_nat pos - Z.of_nat (length (r_out acc)))%Z ->
  forall j o, In (j, o) (all_grp_pairs s ms tr un pos (length (r_out acc))) ->
    nth_error (r_smap r) (S j) = Some (Z.of_nat o - Z.of_nat j)%Z /\
    nth_error (r_emap r) (S j) = Some (Z.of_nat o - Z.of_nat j)%Z.
Proof.
  induction ms as [|m ms IH]; intros pos shift acc r H Hok Hs He Hsh j o Hin; cbn [rule_loop all_grp_pairs] in H, Hin;
    [destruct Hin|].
  destruct Hok as (H1 & H2 & H3 & Hok').
  destruct (process_match s m shift tr un) as [p|] eqn:Hp; [|discriminate].
  pose proof (delta_ok_all s m tr un shift p Hp) as Hdelta.
  destruct (process_match_spec s m shift tr un) as (p' & Hp' & Hsub & Hps & Hpe).
  rewrite Hp in Hp'. inversion Hp'; subst p'; clear Hp'.
  assert (Hgl : length (substr s pos (m_start m)) = m_start m - pos) by (apply substr_length; lia).
  set (base := length (r_out acc) + (m_start m - pos)) in *.
  set (acc' := {| r_out := r_out acc ++ substr s pos (m_start m) ++ p_sub p;
                  r_smap := r_smap acc ++ copy_map (length (substr s pos (m_start m))) shift ++ p_smap p;
                  r_emap := r_emap acc ++ copy_map (length (substr s pos (m_start m))) shift ++ p_emap p |}) in *.
  apply in_app_or in Hin. destruct Hin as [Hin|Hin].
  - apply in_map_iff in Hin. destruct Hin as ([j0 o0] & E & Hin). cbn [fst snd] in E. inversion E; subst j o.
    assert (Hb : shift = (Z.of_nat (m_start m) - Z.of_nat base)%Z) by (unfold base; lia).
    destruct (process_match_grp s m shift tr un p base Hp Hb j0 o0 Hin) as [G1 G2].
    assert (Hj : j0 < length (p_smap p) /\ j0 < length (p_emap p)) by (split; apply nth_error_Some; congruence).
    destruct (rule_loop_prefix _ _ _ _ _ _ _ _ H) as (x & y & Hx & Hy). rewrite Hx, Hy. unfold acc'; cbn [r_smap r_emap].
    rewrite <- !app_assoc.
    split; (rewrite nth_error_app2 by (unfold base; lia)); rewrite ?Hs, ?He;
      (rewrite nth_error_app2 by (unfold copy_map; rewrite repeat_length; unfold base; lia));
      unfold copy_map; rewrite repeat_length, Hgl;
      replace (S (base + j0) - S (length (r_out acc)) - (m_start m - pos)) with j0 by (unfold base; lia);
      (rewrite nth_error_app1 by apply Hj); [rewrite G1 | rewrite G2]; f_equal; lia.
  - apply (IH (m_end m) (shift + p_delta p)%Z acc' r H Hok'); auto.
    + unfold acc'; simpl. rewrite !app_length, Hs, Hps. unfold copy_map. rewrite repeat_length. lia.
    + unfold acc'; simpl. rewrite !app_length, He, Hpe. unfold copy_map. rewrite repeat_length. lia.
    + unfold acc'; simpl. rewrite !app_length, Hgl, Hdelta. lia.
    + unfold acc'; simpl. rewrite !app_length, Hgl, Hsub. unfold base in Hin. rewrite Nat.add_assoc. exact Hin.
Qed.

(* at the level of one rule application: every character carried over through
   an in-order group reference is attributed to its original position, however
   much text earlier matches (or earlier segments of this match) inserted or
   deleted *)
Theorem rule_group_provenance s ms tr un st :
  ms <> [] -> apply_rule s ms tr un = Some st -> ms_ok s ms 0 ->
  forall j o, In (j, o) (all_grp_pairs s ms tr un 0 0) ->
    nth_error (st_smap st) (S j) = Some (Z.of_nat o - Z.of_nat j)%Z /\
    nth_error (st_emap st) (S j) = Some (Z.of_nat o - Z.of_nat j)%Z.
Proof.
  intros Hne H Hok j o Hin. unfold apply_rule in H. destruct ms as [|m ms]; [congruence|].
  destruct (rule_loop s (m :: ms) tr un 0 0 {| r_out := []; r_smap := [0%Z]; r_emap := [0%Z] |}) as [r|] eqn:E;
    [|discriminate].
  inversion H; subst st; simpl.
  apply (group_provenance s tr un (m :: ms) 0 0%Z _ r E Hok); auto.
Qed.

(* non-vacuity: wo(n)'t -> will \1ot on "I won't": the n keeps its position 4 *)
Example ex_group_pairs :
  let s := [73; 32; 119; 111; 110; 39; 116]%N in
  let m := {| m_start := 2; m_end := 7; m_groups := [Some (4, 5)]; m_last := Some 1 |} in
  all_grp_pairs s [m] [SLit [119;105;108;108;32]%N; SGrp 1; SLit [111;116]%N] [] 0 0 = [(7, 4)].
Proof. vm_compute. reflexivity. Qed.
