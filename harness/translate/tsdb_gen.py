"""delphin/tsdb.py -> Gen/TsdbGen.v : the escape replace-chain, the unescape
branch table and loop shape, FIELD_DELIMITER, TSDB_CODED_ATTRIBUTES."""
import ast
from harness.translate.astutil import (
    Unsupported, parse_module, find_func, module_constants, strip_doc,
    const_str, dump, cstr)


def _escape_chain(fn, consts):
    body = strip_doc(fn.body)
    if len(body) != 1 or not isinstance(body[0], ast.Return):
        raise Unsupported("escape: body is not a single return")
    arg = fn.args.args[0].arg
    node = body[0].value
    chain = []
    while isinstance(node, ast.Call):
        f = node.func
        if not (isinstance(f, ast.Attribute) and f.attr == "replace"
                and len(node.args) == 2 and not node.keywords):
            raise Unsupported("escape: not a .replace(a, b) chain")
        a = const_str(node.args[0], consts)
        b = const_str(node.args[1], consts)
        if len(a) != 1:
            raise Unsupported("escape: multi-character pattern")
        chain.append((a, b))
        node = f.value
    if not (isinstance(node, ast.Name) and node.id == arg):
        raise Unsupported("escape: chain does not start at the argument")
    chain.reverse()
    return chain


def _is_append(stmt, lst, what_dump):
    return (isinstance(stmt, ast.Expr) and isinstance(stmt.value, ast.Call)
            and isinstance(stmt.value.func, ast.Attribute)
            and stmt.value.func.attr == "append"
            and isinstance(stmt.value.func.value, ast.Name)
            and stmt.value.func.value.id == lst
            and len(stmt.value.args) == 1
            and dump(stmt.value.args[0]) == what_dump)


def _cmp_eq_const(test, var, consts):
    if (isinstance(test, ast.Compare) and len(test.ops) == 1
            and isinstance(test.ops[0], ast.Eq)
            and isinstance(test.left, ast.Name) and test.left.id == var):
        return const_str(test.comparators[0], consts)
    raise Unsupported("unescape: unexpected test " + dump(test)[:80])


def _assign_bool(stmt, name, val):
    return (isinstance(stmt, ast.Assign) and len(stmt.targets) == 1
            and isinstance(stmt.targets[0], ast.Name) and stmt.targets[0].id == name
            and isinstance(stmt.value, ast.Constant) and stmt.value.value is val)


def _unescape_table(fn, consts):
    body = strip_doc(fn.body)
    arg = fn.args.args[0].arg
    # chars = []; esc = False; for c in string: ...; if esc: raise; return ''.join(chars)
    if len(body) != 5:
        raise Unsupported("unescape: expected 5 statements, got %d" % len(body))
    s_chars, s_esc, s_for, s_if, s_ret = body
    tgt = s_chars.target if isinstance(s_chars, ast.AnnAssign) else (
        s_chars.targets[0] if isinstance(s_chars, ast.Assign) else None)
    if not (isinstance(tgt, ast.Name) and isinstance(s_chars.value, ast.List)
            and not s_chars.value.elts):
        raise Unsupported("unescape: no accumulator list")
    chars = tgt.id
    if not (isinstance(s_esc, ast.Assign) and isinstance(s_esc.targets[0], ast.Name)
            and _assign_bool(s_esc, s_esc.targets[0].id, False)):
        raise Unsupported("unescape: no flag initialisation")
    esc = s_esc.targets[0].id
    if not (isinstance(s_for, ast.For) and isinstance(s_for.target, ast.Name)
            and isinstance(s_for.iter, ast.Name) and s_for.iter.id == arg
            and not s_for.orelse and len(s_for.body) == 1
            and isinstance(s_for.body[0], ast.If)):
        raise Unsupported("unescape: loop shape")
    c = s_for.target.id
    top = s_for.body[0]
    if not (isinstance(top.test, ast.Name) and top.test.id == esc):
        raise Unsupported("unescape: first test is not the flag")
    # --- escaped branch: if/elif chain + else raise; then esc = False
    if len(top.body) != 2 or not _assign_bool(top.body[1], esc, False):
        raise Unsupported("unescape: escaped branch shape")
    table = []
    node = top.body[0]
    while True:
        if not isinstance(node, ast.If):
            raise Unsupported("unescape: escaped chain shape")
        k = _cmp_eq_const(node.test, c, consts)
        if len(node.body) != 1:
            raise Unsupported("unescape: escaped chain body")
        st = node.body[0]
        if not (isinstance(st, ast.Expr) and isinstance(st.value, ast.Call)
                and isinstance(st.value.func, ast.Attribute)
                and st.value.func.attr == "append"
                and isinstance(st.value.func.value, ast.Name)
                and st.value.func.value.id == chars and len(st.value.args) == 1):
            raise Unsupported("unescape: escaped chain action")
        r = const_str(st.value.args[0], consts)
        if len(k) != 1 or len(r) != 1:
            raise Unsupported("unescape: multi-character table entry")
        table.append((k, r))
        if len(node.orelse) != 1:
            raise Unsupported("unescape: escaped chain has no else")
        nxt = node.orelse[0]
        if isinstance(nxt, ast.Raise):
            break
        node = nxt
    # --- unescaped branch: elif c == '\\': esc = True  else: chars.append(c)
    if len(top.orelse) != 1 or not isinstance(top.orelse[0], ast.If):
        raise Unsupported("unescape: unescaped branch shape")
    u = top.orelse[0]
    lead = _cmp_eq_const(u.test, c, consts)
    if not (len(u.body) == 1 and _assign_bool(u.body[0], esc, True)):
        raise Unsupported("unescape: flag not set on the lead character")
    if not (len(u.orelse) == 1 and _is_append(u.orelse[0], chars, dump(ast.Name(c, ast.Load())))):
        raise Unsupported("unescape: default branch does not append the character")
    # --- trailing escape is an error; result is ''.join(chars)
    if not (isinstance(s_if, ast.If) and isinstance(s_if.test, ast.Name) and s_if.test.id == esc
            and len(s_if.body) == 1 and isinstance(s_if.body[0], ast.Raise) and not s_if.orelse):
        raise Unsupported("unescape: trailing-escape check")
    r = s_ret.value if isinstance(s_ret, ast.Return) else None
    if not (isinstance(r, ast.Call) and isinstance(r.func, ast.Attribute) and r.func.attr == "join"
            and isinstance(r.func.value, ast.Constant) and r.func.value.value == ""
            and len(r.args) == 1 and isinstance(r.args[0], ast.Name) and r.args[0].id == chars):
        raise Unsupported("unescape: return shape")
    return lead, table


def translate(repo):
    tree = parse_module(repo, "delphin/tsdb.py")
    consts = module_constants(tree)
    chain = _escape_chain(find_func(tree, "escape"), consts)
    lead, table = _unescape_table(find_func(tree, "unescape"), consts)
    delim = consts.get("FIELD_DELIMITER")
    if not (isinstance(delim, str) and len(delim) == 1):
        raise Unsupported("FIELD_DELIMITER is not a one-character string")
    coded = consts.get("TSDB_CODED_ATTRIBUTES")
    if not (isinstance(coded, dict) and all(isinstance(k, str) and isinstance(v, str)
                                            for k, v in coded.items())):
        raise Unsupported("TSDB_CODED_ATTRIBUTES is not a str->str dict literal")
    months = consts.get("_MONTHS")
    if not isinstance(months, dict):
        raise Unsupported("_MONTHS is not a dict literal")
    mnames = []
    for i in range(1, 13):
        n = months.get(i)
        if not isinstance(n, str) or months.get(n) != i:
            raise Unsupported("_MONTHS is not the bidirectional 1..12 map")
        mnames.append(n)
    out = []
    out.append("(* GENERATED from delphin/tsdb.py by harness/translate/tsdb_gen.py; do not edit *)")
    out.append("From Coq Require Import List NArith.")
    out.append("Import ListNotations.")
    out.append("Open Scope N_scope.")
    out.append("Definition gen_field_delimiter : N := %d." % ord(delim))
    out.append("Definition gen_escape_chain : list (N * list N) := [%s]."
               % "; ".join("(%d, %s)" % (ord(a), cstr(b)) for a, b in chain))
    out.append("Definition gen_unescape_lead : N := %d." % ord(lead))
    out.append("Definition gen_unescape_table : list (N * N) := [%s]."
               % "; ".join("(%d, %d)" % (ord(a), ord(b)) for a, b in table))
    out.append("Definition gen_coded_attributes : list (list N * list N) := [%s]."
               % "; ".join("(%s, %s)" % (cstr(k), cstr(v)) for k, v in coded.items()))
    out.append("Definition gen_months : list (list N) := [%s]."
               % "; ".join(cstr(m) for m in mnames))
    return "\n".join(out) + "\n"
