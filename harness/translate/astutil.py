import ast
import os


class Unsupported(Exception):
    pass


def parse_module(repo, rel):
    path = os.path.join(repo, rel)
    with open(path, encoding="utf-8") as f:
        return ast.parse(f.read(), filename=path)


def find_func(tree, name, cls=None):
    body = tree.body
    if cls is not None:
        for n in body:
            if isinstance(n, ast.ClassDef) and n.name == cls:
                body = n.body
                break
        else:
            raise Unsupported("class %s not found" % cls)
    for n in body:
        if isinstance(n, (ast.FunctionDef, ast.AsyncFunctionDef)) and n.name == name:
            return n
    raise Unsupported("function %s not found" % name)


def module_constants(tree):
    """Module-level NAME = <literal> assignments (str/int/dict/list of literals)."""
    out = {}
    for n in tree.body:
        if isinstance(n, ast.Assign) and len(n.targets) == 1 and isinstance(n.targets[0], ast.Name):
            try:
                out[n.targets[0].id] = ast.literal_eval(n.value)
            except Exception:
                pass
        elif isinstance(n, ast.AnnAssign) and isinstance(n.target, ast.Name) and n.value is not None:
            try:
                out[n.target.id] = ast.literal_eval(n.value)
            except Exception:
                pass
    return out


def strip_doc(body):
    if body and isinstance(body[0], ast.Expr) and isinstance(body[0].value, ast.Constant) \
            and isinstance(body[0].value.value, str):
        return body[1:]
    return body


def const_str(node, consts):
    if isinstance(node, ast.Constant) and isinstance(node.value, str):
        return node.value
    if isinstance(node, ast.Name) and isinstance(consts.get(node.id), str):
        return consts[node.id]
    raise Unsupported("expected a string constant, got " + ast.dump(node)[:80])


def dump(node):
    return ast.dump(node, annotate_fields=False)


def cstr(s):
    return "[" + ";".join(str(ord(c)) for c in s) + "]"
