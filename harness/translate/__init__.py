"""Tie A: fail-closed translators from /repo source (Python ast) to Gallina.

Each translator takes the repository root and returns the text of
coq/Gen/<Name>.v, or raises (the caller then emits a stub and the kernel is
reported as fail-closed; lemmas depending on it stop compiling, which the
check reports as a broken proof obligation and follows with a search)."""
from harness.translate import tsdb_gen, edm_gen

ALL = {
    "TsdbGen": tsdb_gen.translate,
    "EdmGen": edm_gen.translate,
}
