"""delphin/edm.py -> Gen/EdmGen.v : _prf and the three weighted totals of
compute(), as Gallina expressions over Q and over binary64."""
import ast
from harness.translate.astutil import Unsupported, parse_module, find_func, strip_doc, dump

CAT = {"name": "m_name", "argument": "m_arg", "property": "m_prop", "constant": "m_const", "top": "m_top"}
SEL = {"gold": "c_gold", "test": "c_test", "both": "c_both"}
WGT = {"name_weight": "w_name", "argument_weight": "w_arg", "property_weight": "w_prop",
       "constant_weight": "w_const", "top_weight": "w_top"}
OPS = {ast.Add: "+", ast.Sub: "-", ast.Mult: "*", ast.Div: "/"}


def _expr(node, env, num):
    """env: name -> Gallina text; num: function literal -> text"""
    if isinstance(node, ast.BinOp) and type(node.op) in OPS:
        return "(%s %s %s)" % (_expr(node.left, env, num), OPS[type(node.op)], _expr(node.right, env, num))
    if isinstance(node, ast.Name) and node.id in env:
        return env[node.id]
    if isinstance(node, ast.Constant) and isinstance(node.value, (int, float)) \
            and not isinstance(node.value, bool) and float(node.value) == int(node.value):
        return num(int(node.value))
    if isinstance(node, ast.Attribute):  # totals.<cat>.<sel>
        v = node.value
        if (isinstance(v, ast.Attribute) and isinstance(v.value, ast.Name) and v.value.id == "totals"
                and v.attr in CAT and node.attr in SEL):
            return env["__count__"] % (SEL[node.attr], CAT[v.attr])
    raise Unsupported("expression " + dump(node)[:100])


def _prf(fn, scope):
    body = strip_doc(fn.body)
    args = [a.arg for a in fn.args.args]
    if args != ["g", "t", "b"] or len(body) != 1 or not isinstance(body[0], ast.If):
        raise Unsupported("_prf: shape")
    top = body[0]
    # guard: x == 0 or y == 0 or z == 0
    if not (isinstance(top.test, ast.BoolOp) and isinstance(top.test.op, ast.Or)):
        raise Unsupported("_prf: guard")
    guards = []
    for c in top.test.values:
        if not (isinstance(c, ast.Compare) and len(c.ops) == 1 and isinstance(c.ops[0], ast.Eq)
                and isinstance(c.left, ast.Name) and c.left.id in args
                and isinstance(c.comparators[0], ast.Constant) and c.comparators[0].value == 0):
            raise Unsupported("_prf: guard clause")
        guards.append(c.left.id)
    # then: return _Score(0.0, 0.0, 0.0)
    r0 = top.body[0] if len(top.body) == 1 else None
    if not (isinstance(r0, ast.Return) and isinstance(r0.value, ast.Call) and len(r0.value.args) == 3
            and all(isinstance(a, ast.Constant) and a.value == 0 for a in r0.value.args)):
        raise Unsupported("_prf: zero branch")
    env = {a: a for a in args}
    lets = []
    ret = None
    for st in top.orelse:
        if isinstance(st, ast.Assign) and len(st.targets) == 1 and isinstance(st.targets[0], ast.Name):
            lets.append((st.targets[0].id, _expr(st.value, env, scope["num"])))
            env[st.targets[0].id] = st.targets[0].id
        elif isinstance(st, ast.Return) and isinstance(st.value, ast.Call) and len(st.value.args) == 3:
            ret = [_expr(a, env, scope["num"]) for a in st.value.args]
        else:
            raise Unsupported("_prf: else branch")
    if ret is None:
        raise Unsupported("_prf: no return")
    cond = " || ".join(scope["eq0"] % g for g in guards)
    out = "if (%s)%%bool then (%s, %s, %s) else " % (cond, scope["zero"], scope["zero"], scope["zero"])
    for n, e in lets:
        out += "let %s := %s in " % (n, e)
    out += "(%s, %s, %s)" % tuple(ret)
    return out


def _totals(fn, scope):
    out = {}
    env = {k: "(%s w)" % v for k, v in WGT.items()}
    env["__count__"] = scope["inj"] + " (%s (%s m))"
    for st in ast.walk(fn):
        if (isinstance(st, ast.Assign) and len(st.targets) == 1 and isinstance(st.targets[0], ast.Name)
                and st.targets[0].id in ("gold_total", "test_total", "both_total")):
            out[st.targets[0].id] = _expr(st.value, env, scope["num"])
    if sorted(out) != ["both_total", "gold_total", "test_total"]:
        raise Unsupported("compute: totals not found")
    # return _prf(gold_total, test_total, both_total)
    last = fn.body[-1]
    if not (isinstance(last, ast.Return) and isinstance(last.value, ast.Call)
            and isinstance(last.value.func, ast.Name) and last.value.func.id == "_prf"
            and [getattr(a, "id", None) for a in last.value.args] == ["gold_total", "test_total", "both_total"]):
        raise Unsupported("compute: return shape")
    return out


def translate(repo):
    tree = parse_module(repo, "delphin/edm.py")
    q = {"num": lambda n: "(%d # 1)" % n, "eq0": "Qeq_bool %s 0", "zero": "0%Q", "inj": "nQ"}
    f = {"num": lambda n: "(PrimFloat.of_uint63 %d%%uint63)" % n, "eq0": "PrimFloat.eqb %s 0%%float",
         "zero": "0%float", "inj": "nF"}
    prf = find_func(tree, "_prf")
    comp = find_func(tree, "compute")
    tq, tf = _totals(comp, q), _totals(comp, f)
    lines = ["(* GENERATED from delphin/edm.py by harness/translate/edm_gen.py; do not edit *)",
             "From Coq Require Import ZArith QArith PrimFloat Uint63 Bool.",
             "From PyD Require Import Model.Edm.",
             "Definition gen_prf_Q (g t b : Q) : Q * Q * Q := (%s)%%Q." % _prf(prf, q),
             "Definition gen_prf_F (g t b : float) : float * float * float := (%s)%%float." % _prf(prf, f)]
    for k in ("gold_total", "test_total", "both_total"):
        lines.append("Definition gen_%s_Q (m : mtch) (w : weights Q) : Q := (%s)%%Q." % (k, tq[k]))
        lines.append("Definition gen_%s_F (m : mtch) (w : weights float) : float := (%s)%%float." % (k, tf[k]))
    return "\n".join(lines) + "\n"
