#!/bin/bash
# usage: harness/runall.sh [seed]  — run every claimed quick check on the current tree
cd "$(dirname "$0")/.."
SEED=${1:-}
for id in $(python3 -c "import json;print(' '.join(c['property_id'] for c in json.load(open('MANIFEST.json'))['checks']))"); do
  if [ -n "$SEED" ]; then export VERIF_SEED=$SEED; fi
  out=$(./check $id --tier quick 2>&1 | grep -E "^OK|VIOLATION" | cut -c1-220)
  echo "$id: $out"
done
