"""Runs inside a fresh interpreter with PYTHONPATH=/repo: calls the property
module's observe()/oracle() on every case, with a per-case watchdog."""
import importlib
import json
import signal
import sys
import warnings


class CaseTimeout(Exception):
    pass


def _alarm(signum, frame):
    raise CaseTimeout()


def exc_name(e):
    return type(e).__name__


def main():
    pid, inp, outp, mode = sys.argv[1:5]
    mod = importlib.import_module("harness.props." + pid.lower())
    with open(inp) as f:
        cases = json.load(f)
    signal.signal(signal.SIGALRM, _alarm)
    per_case = getattr(mod, "CASE_TIMEOUT", 20)
    observed, failures = [], []
    warnings.simplefilter("ignore")
    if hasattr(mod, "impl_setup"):
        mod.impl_setup()
    for c in cases:
        signal.alarm(per_case)
        try:
            try:
                o = mod.observe(c)
            except CaseTimeout:
                o = {"exc": "Timeout"}
            except RecursionError:
                o = {"exc": "RecursionError"}
            except Exception as e:  # observe() itself maps expected errors
                o = {"exc": "Harness:" + exc_name(e) + ":" + str(e)[:200]}
            signal.alarm(per_case)
            try:
                fl = mod.oracle(c)
            except CaseTimeout:
                fl = "hang (watchdog %ds)" % per_case
            except Exception as e:
                fl = "oracle raised %s: %s" % (exc_name(e), str(e)[:300])
        finally:
            signal.alarm(0)
        observed.append(o)
        failures.append(fl)
    if hasattr(mod, "impl_teardown"):
        mod.impl_teardown()
    with open(outp, "w") as f:
        json.dump({"observed": observed, "failures": failures}, f)


if __name__ == "__main__":
    main()
