#!/venv/bin/python
"""A scripted stand-in for the ACE binary (C19).

`fake_ace.py -V` prints a version; otherwise it reads the plan named by the
environment variable FAKE_ACE_PLAN (JSON) and answers one request per input
line.  The behaviour of the k-th request that any incarnation of the
stand-in reads (counted across restarts in the plan's state file) is
plan["behaviours"][k]:
   {"b": "ok"}                      answer completely
   {"b": "exit_before", "d": s}     wait s seconds, exit without answering
   {"b": "exit_mid", "cut": f}      write the first fraction f of the answer, exit
   {"b": "exit_mid", "paren": j}    write the answer up to (and excluding) its j-th closing parenthesis
                                    counted from the end, exit (a cut on a structural boundary)
   {"b": "exit_after", "d": s}      answer completely, wait s seconds, exit
Every event is appended to the plan's log file.
"""
import json
import os
import sys
import time


def answer(plan, text):
    """the full answer for one input, as a string"""
    t = text.rstrip("\n")
    esc = t.replace("\\", "\\\\").replace('"', '\\"')
    task, tsdb = plan["task"], plan["tsdb"]
    n = plan.get("nresults", 2)
    if task == "parse":
        if tsdb:
            res = " ".join('((:result-id . %d) (:derivation . "(root%d %s)") (:mrs . "[ R%d %s ]"))' % (i, i, esc, i, esc)
                           for i in range(n))
            return '(:ninputs . 1) (:p-input . "%s") (:readings . %d) (:results . (%s))\n\n\n' % (esc, n, res)
        body = "".join("[ R%d %s ] ;  (root%d %s)\n" % (i, t, i, t) for i in range(n))
        return "SENT: %s\n%s\n\n" % (t, body)
    if task == "transfer":
        body = "".join("[ T%d %s ]\n" % (i, t) for i in range(n))
        return "%s\n" % body
    # generate
    if tsdb:
        res = " ".join('((:result-id . %d) (:surface . "S%d %s") (:derivation . "(g%d)"))' % (i, i, esc, i)
                       for i in range(n))
        return '(:readings . %d) (:results . (%s))\n' % (n, res)
    body = "".join("S%d %s\n" % (i, t) for i in range(n))
    return "%sNOTE: tsdb parse: (:readings . %d) (:i-input . \"%s\")\n" % (body, n, esc)


def main():
    if "-V" in sys.argv:
        print("ACE version 0.9.34")
        return 0
    with open(os.environ["FAKE_ACE_PLAN"]) as f:
        plan = json.load(f)
    state, logp = plan["state"], plan["log"]

    def log(*ev):
        with open(logp, "a") as f:
            f.write(json.dumps(ev) + "\n")

    log("start", os.getpid())
    if plan.get("run_note", True):
        sys.stdout.write('NOTE: tsdb run: (:application . "fake") (:platform . "p") (:grammar . "G") (:avms . 1)\n')
        sys.stdout.flush()
    while True:
        line = sys.stdin.readline()
        if line == "":
            log("eof")
            return 0
        with open(state) as f:
            k = int(f.read() or "0")
        with open(state, "w") as f:
            f.write(str(k + 1))
        bs = plan["behaviours"]
        b = bs[k] if k < len(bs) else {"b": "ok"}
        log("read", k, line.rstrip("\n"), b["b"])
        full = answer(plan, line)
        if b["b"] == "exit_before":
            time.sleep(b.get("d", 0))
            log("exit", k)
            os._exit(3)
        if b["b"] == "exit_mid":
            if "paren" in b:
                idx = [i for i, ch in enumerate(full) if ch == ")"]
                cut = idx[-b["paren"]] if len(idx) >= b["paren"] else max(1, len(full) // 2)
            else:
                cut = max(1, int(len(full) * b.get("cut", 0.5)))
            sys.stdout.write(full[:cut])
            sys.stdout.flush()
            log("partial", k, cut)
            os._exit(3)
        sys.stdout.write(full)
        sys.stdout.flush()
        log("answered", k)
        if b["b"] == "exit_after":
            time.sleep(b.get("d", 0))
            log("exit", k)
            os._exit(3)


if __name__ == "__main__":
    sys.exit(main())
