"""Common engine of every check: build the Coq development, count the proof
obligations, run the implementation on generated cases, let the Coq kernel
compare the model with the observations (correspondence shards), search for a
failing input, write evidence, print the verdict.

See DESIGN.md section 1 ("Decision procedure of one check").
"""
import hashlib
import importlib
import json
import os
import random
import re
import shutil
import subprocess
import sys
import tempfile
import time
from concurrent.futures import ThreadPoolExecutor

VERIF = os.path.dirname(os.path.dirname(os.path.abspath(__file__)))
COQ = os.path.join(VERIF, "coq")
REPO = os.environ.get("VERIF_REPO", "/repo")
PY = "/venv/bin/python"
DEFAULT_SEED = 20261001
SHARD = 400
JOBS = int(os.environ.get("VERIF_JOBS", "16"))

TRUSTED_BASE_COMMON = [
    "Coq 8.16.1 kernel (coqc), including the vm_compute reduction machine used in "
    "correspondence shards and finite-sweep lemmas; native_compute is not used",
    "no axioms declared in the development; Print Assumptions of every property "
    "theorem is compared with the allow-list on every run",
    "hand-written Gallina models (coq/Model/*.v) are tied to /repo by the "
    "correspondence shards (model evaluated by the kernel on the inputs the real "
    "code was run on) and, for listed kernels, by definitions regenerated from "
    "the source (harness/translate, Python ast, fail-closed)",
    "the Python harness: generators, drivers calling the public API, literal "
    "printers (harness/coqlit.py); no extraction, no OCaml glue",
]


def log(*a):
    print(*a, file=sys.stderr, flush=True)


# --------------------------------------------------------------------------
# Coq build

def run(cmd, cwd=None, timeout=None, env=None):
    try:
        p = subprocess.run(cmd, cwd=cwd, timeout=timeout, env=env,
                           stdout=subprocess.PIPE, stderr=subprocess.STDOUT,
                           text=True, errors="replace")
        return p.returncode, p.stdout
    except subprocess.TimeoutExpired as e:
        out = e.stdout or ""
        if isinstance(out, bytes):
            out = out.decode("utf-8", "replace")
        return 124, out + "\n[timeout]"


def regenerate():
    """Tie A: re-emit coq/Gen/*.v from the current /repo source.  Returns
    {kernel: 'ok' | 'fail-closed: reason'}; files are only rewritten when
    their content changed so that make stays incremental."""
    from harness.translate import ALL
    status = {}
    os.makedirs(os.path.join(COQ, "Gen"), exist_ok=True)
    for name, fn in ALL.items():
        path = os.path.join(COQ, "Gen", name + ".v")
        try:
            text = fn(REPO)
            status[name] = "ok"
        except Exception as e:  # fail closed: emit a file that cannot be used
            text = ("(* translator failed closed: %s *)\n"
                    "Definition translator_failed_%s : True := I.\n"
                    % (str(e).replace("*)", "* )"), name))
            status[name] = "fail-closed: %s" % e
        old = None
        if os.path.exists(path):
            with open(path) as f:
                old = f.read()
        if old != text:
            with open(path, "w") as f:
                f.write(text)
    return status


def ensure_makefile():
    mk = os.path.join(COQ, "Makefile")
    cp = os.path.join(COQ, "_CoqProject")
    if (not os.path.exists(mk)
            or os.path.getmtime(mk) < os.path.getmtime(cp)):
        rc, out = run(["coq_makefile", "-f", "_CoqProject", "-o", "Makefile"],
                      cwd=COQ, timeout=120)
        if rc != 0:
            raise RuntimeError("coq_makefile failed: " + out)


def make(targets, timeout=1500):
    ensure_makefile()
    # a flock keeps concurrent checks from racing in the same build tree
    cmd = ["flock", os.path.join(COQ, ".build.lock"),
           "make", "-j%d" % JOBS] + list(targets)
    rc, out = run(cmd, cwd=COQ, timeout=timeout)
    return rc == 0, out


def failing_file(make_out):
    m = re.search(r'File "\./([^"]+)", line (\d+)', make_out)
    if m:
        return m.group(1), int(m.group(2))
    return None, None


def check_props_file(pid, allow_axioms=()):
    """Compile Props/<pid>.v on its own (it only contains `exact lemma`
    proofs, so this is cheap) and read the Print Assumptions report of every
    theorem in it.  Returns dict(obligations, discharged, theorems, axioms,
    ok, log)."""
    src = os.path.join(COQ, "Props", pid + ".v")
    with open(src) as f:
        text = f.read()
    theorems = re.findall(r'^(?:Theorem|Lemma)\s+([A-Za-z0-9_\']+)', text, re.M)
    printed = re.findall(r'^Print Assumptions\s+([A-Za-z0-9_\']+)\.', text, re.M)
    res = dict(theorems=theorems, obligations=len(theorems), discharged=0,
               axioms={}, ok=False, log="")
    if sorted(theorems) != sorted(printed):
        res["log"] = "Props file: theorem list and Print Assumptions list differ"
        return res
    if re.search(r'\b(Admitted|admit|Axiom|Parameter|Conjecture|Hypothesis|Variable)\b',
                 re.sub(r'\(\*.*?\*\)', '', text, flags=re.S)):
        res["log"] = "Props file contains a forbidden keyword"
        return res
    tmpd = tempfile.mkdtemp(prefix="verif_props_")
    try:
        rc, out = run(["flock", "-s", os.path.join(COQ, ".build.lock"),
                       "coqc", "-Q", ".", "PyD", "-o", os.path.join(tmpd, pid + ".vo"),
                       "Props/%s.v" % pid], cwd=COQ, timeout=600)
    finally:
        shutil.rmtree(tmpd, ignore_errors=True)
    res["log"] = out[-4000:]
    if rc != 0:
        return res
    # blocks in order of the Print Assumptions commands
    blocks = re.split(r'(?m)^(?=Closed under the global context|Axioms:)', out)
    blocks = [b for b in blocks if b.startswith("Closed under") or b.startswith("Axioms:")]
    if len(blocks) != len(printed):
        res["log"] += "\nexpected %d assumption reports, got %d" % (len(printed), len(blocks))
        return res
    ok = True
    for name, b in zip(printed, blocks):
        if b.startswith("Closed under"):
            res["discharged"] += 1
        else:
            names = re.findall(r'^([A-Za-z0-9_.\']+)\s*:', b.split('\n', 1)[1] if '\n' in b else '', re.M)
            res["axioms"][name] = names
            if all(n in allow_axioms for n in names):
                res["discharged"] += 1
            else:
                ok = False
    res["ok"] = ok and res["discharged"] == res["obligations"]
    return res


# --------------------------------------------------------------------------
# implementation runs

def run_impl(pid, cases, mode="both", timeout=3000):
    """Run observe()/oracle() of the property module on every case inside a
    fresh interpreter that imports the package from REPO's working tree."""
    with tempfile.TemporaryDirectory(prefix="verif_impl_") as d:
        inp = os.path.join(d, "in.json")
        outp = os.path.join(d, "out.json")
        with open(inp, "w") as f:
            json.dump(cases, f)
        env = dict(os.environ)
        env["PYTHONPATH"] = REPO + os.pathsep + VERIF
        env["PYTHONHASHSEED"] = "0"
        env["DELPH_IN_PYDELPHIN_VERIF"] = "1"
        rc, out = run([PY, "-m", "harness.implrun", pid, inp, outp, mode],
                      cwd=d, timeout=timeout, env=env)
        if rc != 0 or not os.path.exists(outp):
            return None, out
        with open(outp) as f:
            return json.load(f), out


# --------------------------------------------------------------------------
# correspondence shards

SHARD_HEADER = """From Coq Require Import List NArith ZArith Bool String.
Import ListNotations.
From PyD Require Import Base.Str Corr.Common %s.
Open Scope N_scope.
"""


MAX_SHARD_BYTES = 300000


def _write_shard(path, corr_mod, terms, diag):
    with open(path, "w") as f:
        f.write(SHARD_HEADER % corr_mod)
        f.write("Definition cases : list case := [\n")
        f.write(";\n".join(terms))
        f.write("\n].\n")
        if diag:
            f.write("Eval vm_compute in (bad_idx check_case cases).\n")
        else:
            f.write("Lemma shard_ok : forallb check_case cases = true.\n"
                    "Proof. vm_compute. reflexivity. Qed.\n")


def _coqc_shard(path):
    # large list literals need a deep stack in coqc's parser/type checker
    rc, out = run(["bash", "-c", "ulimit -s unlimited 2>/dev/null || ulimit -s 1000000 2>/dev/null; "
                   "exec coqc -Q . PyD \"$0\"", path], cwd=COQ, timeout=900)
    base = path[:-2]
    for ext in (".vo", ".glob", ".vok", ".vos", ".aux"):
        for p in (base + ext, os.path.join(os.path.dirname(base), "." + os.path.basename(base) + ext)):
            try:
                os.unlink(p)
            except OSError:
                pass
    return rc, out


def run_shards(pid, corr_mod, items, shard=None):
    """items: list of (case_index, coq_term).  Returns (n_shards, n_ok,
    bad_case_indices, logs)."""
    d = os.path.join(COQ, "cases", "%s_%d" % (pid, os.getpid()))
    shutil.rmtree(d, ignore_errors=True)
    os.makedirs(d)
    shard = shard or SHARD
    # shards are bounded by case count and by text size (a multi-megabyte literal
    # overflows coqc's stack; see DESIGN.md section 10)
    shards, cur, size = [], [], 0
    for it in items:
        n = len(it[1])
        if cur and (len(cur) >= shard or size + n > MAX_SHARD_BYTES):
            shards.append(cur)
            cur, size = [], 0
        cur.append(it)
        size += n
    if cur:
        shards.append(cur)
    paths = []
    for k, sh in enumerate(shards):
        p = os.path.join(d, "shard_%s_%d.v" % (pid, k))
        _write_shard(p, corr_mod, [t for _, t in sh], diag=False)
        paths.append(p)
    bad = []
    logs = []
    n_ok = 0
    try:
        with ThreadPoolExecutor(max_workers=JOBS) as ex:
            results = list(ex.map(_coqc_shard, paths))
        for k, (rc, out) in enumerate(results):
            if rc == 0:
                n_ok += 1
                continue
            # diagnose: which cases disagree
            p = os.path.join(d, "diag_%s_%d.v" % (pid, k))
            _write_shard(p, corr_mod, [t for _, t in shards[k]], diag=True)
            rc2, out2 = _coqc_shard(p)
            m = re.search(r'=\s*\[(.*?)\]', out2, re.S)
            idxs = []
            if rc2 == 0 and m:
                idxs = [int(x) for x in re.findall(r'\d+', m.group(1))]
                bad.extend(shards[k][i][0] for i in idxs)
                if not idxs:
                    logs.append("shard %d failed but no bad index: %s" % (k, out[-1500:]))
                    bad.append(-1 - k)
            else:
                # the shard does not even typecheck / times out: report as a whole
                logs.append("shard %d: %s\n%s" % (k, out[-1500:], out2[-1500:]))
                bad.append(-1 - k)
    finally:
        shutil.rmtree(d, ignore_errors=True)
    return len(shards), n_ok, bad, logs


# --------------------------------------------------------------------------
# known findings

def load_known(pid):
    path = os.path.join(VERIF, "KNOWN_FINDINGS.jsonl")
    known, fixed = [], []
    if os.path.exists(path):
        with open(path) as f:
            for line in f:
                line = line.strip()
                if not line or line.startswith("#"):
                    continue
                e = json.loads(line)
                if pid not in e.get("properties", [e.get("property")]):
                    continue
                (known if e.get("status") == "known" else fixed).append(e)
    return known, fixed


# --------------------------------------------------------------------------
# the check

def canon(case):
    return json.dumps(case, sort_keys=True, ensure_ascii=True)


def main(argv=None):
    import argparse
    ap = argparse.ArgumentParser()
    ap.add_argument("pid")
    ap.add_argument("--tier", default=os.environ.get("VERIF_TIER", "quick"))
    ap.add_argument("--replay")
    ap.add_argument("--seed", type=int,
                    default=int(os.environ.get("VERIF_SEED", DEFAULT_SEED)))
    args = ap.parse_args(argv)
    pid = args.pid
    tier = args.tier if args.tier in ("quick", "thorough") else "quick"
    t0 = time.time()
    mod = importlib.import_module("harness.props." + pid.lower())
    known, fixed = load_known(pid)

    os.makedirs(os.path.join(VERIF, "evidence"), exist_ok=True)
    os.makedirs(os.path.join(VERIF, "replays", pid), exist_ok=True)

    violations = []   # (what, replay_payload, found_input: bool)
    known_seen = {}
    notes = []

    # ---- 1. proofs
    tie_a = regenerate()
    ok, out = make(mod.COQ_TARGETS)
    proof_fail = None
    pr = dict(obligations=0, discharged=0, theorems=[], axioms={}, ok=False, log="")
    if not ok:
        ff, ln = failing_file(out)
        proof_fail = "make failed at %s:%s\n%s" % (ff, ln, out[-3000:])
    else:
        pr = check_props_file(pid, getattr(mod, "ALLOW_AXIOMS", ()))
        if not pr["ok"]:
            proof_fail = "Props/%s.v: %s" % (pid, pr["log"][-3000:])
    tie_needed = getattr(mod, "TIE_A", [])
    tie_status = {k: tie_a.get(k, "missing") for k in tie_needed}
    for k, v in tie_status.items():
        if v != "ok":
            notes.append("Tie A kernel %s: %s" % (k, v))

    # ---- 2. cases
    rng = random.Random(args.seed)
    if args.replay:
        with open(args.replay) as f:
            rp = json.load(f)
        cases = [rp["case"]] if rp.get("case") is not None else []
        if not cases:
            # a replay that names a theorem/shard: re-run the whole check
            cases = mod.gen(rng, tier)
    else:
        cases = []
        cdir = os.path.join(VERIF, "corpus", pid)
        if os.path.isdir(cdir):
            for fn in sorted(os.listdir(cdir)):
                if fn.endswith(".json"):
                    with open(os.path.join(cdir, fn)) as f:
                        c = json.load(f)
                    cases.extend(c if isinstance(c, list) else [c])
        for e in known:
            for w in e.get("witnesses", []):
                cases.append(w)
        cases.extend(mod.gen(rng, tier))
    # dedupe, keep order
    seen = set()
    uniq = []
    for c in cases:
        k = canon(c)
        if k not in seen:
            seen.add(k)
            uniq.append(c)
    cases = uniq

    # ---- 3. run the implementation
    impl_out, impl_log = run_impl(pid, cases, timeout=getattr(mod, "IMPL_TIMEOUT", 3000))
    corr = dict(shards=0, ok=0, bad=[], logs=[])
    hist = {}
    n_nontrivial = 0
    if impl_out is None:
        violations.append(("implementation driver crashed or timed out: " + impl_log[-2000:],
                           dict(theorem_or_shard="impl-driver", case=None), False))
        observed, failures = [], []
    else:
        observed = impl_out["observed"]
        failures = impl_out["failures"]
        # ---- 4. correspondence
        items = []
        nt = set()
        for i, (c, o) in enumerate(zip(cases, observed)):
            kind = c.get("k", "?")
            hist[kind] = hist.get(kind, 0) + 1
            if mod.nontrivial(c):
                nt.add(canon(c))
            if proof_fail is None or True:
                try:
                    t = mod.coq_case(c, o)
                except Exception as e:  # not representable in the model
                    t = None
                    hist["unmodelled:" + kind] = hist.get("unmodelled:" + kind, 0) + 1
                if isinstance(t, list):
                    items.extend((i, x) for x in t)
                elif t is not None:
                    items.append((i, t))
        n_nontrivial = len(nt)
        ok2, out2 = make(["Corr/%s.vo" % pid, "Corr/Common.vo"])
        if not ok2:
            corr["logs"].append("Corr build failed: " + out2[-2000:])
            corr["bad"] = [-1]
            corr["shards"] = 1
        elif items:
            ns, nok, bad, logs = run_shards(pid, "Corr." + pid, items, getattr(mod, "SHARD", None))
            corr = dict(shards=ns, ok=nok, bad=bad, logs=logs)

    # ---- 5. classify
    def finding_of(case, failure):
        fid = None
        try:
            fid = mod.known_match(case, failure, known)
        except Exception:
            fid = None
        return fid

    oracle_fail = []   # (case idx, failure)
    for i, fl in enumerate(failures):
        if fl:
            fid = finding_of(cases[i], fl)
            if fid:
                known_seen.setdefault(fid, (cases[i], fl))
            else:
                oracle_fail.append((i, fl))
    corr_bad_real = []
    for i in corr["bad"]:
        if i >= 0:
            fid = finding_of(cases[i], "correspondence")
            if fid:
                known_seen.setdefault(fid, (cases[i], "model/implementation differ"))
                continue
        corr_bad_real.append(i)

    def smallest(idx_fail):
        return min(idx_fail, key=lambda t: len(canon(cases[t[0]])))

    if oracle_fail:
        i, fl = smallest(oracle_fail)
        violations.append(("property fails on the implementation: %s" % fl,
                           dict(case=cases[i], observed=observed[i], failure=fl,
                                theorem_or_shard=None,
                                other_failing=len(oracle_fail) - 1), True))
    if corr_bad_real and not oracle_fail:
        idx = [i for i in corr_bad_real if i >= 0]
        payload = dict(theorem_or_shard="correspondence shard of Corr/%s.v" % pid,
                       case=None, logs=corr["logs"][-3:])
        if idx:
            i = min(idx, key=lambda j: len(canon(cases[j])))
            payload.update(disagreeing_case=cases[i], observed=observed[i],
                           n_disagreeing=len(idx))
        violations.append(("model and implementation disagree and no input violating "
                           "the property itself was found", payload, False))
    if proof_fail and not oracle_fail and not corr_bad_real:
        violations.append(("a proof obligation no longer checks: " + proof_fail[:600],
                           dict(theorem_or_shard=proof_fail[:3000], case=None), False))

    # ---- 6. evidence + verdict
    obligations = pr["obligations"] + corr["shards"] + len(tie_needed)
    discharged = (pr["discharged"] + corr["ok"]
                  + sum(1 for v in tie_status.values() if v == "ok" and proof_fail is None))
    wall = time.time() - t0
    samples = []
    for c in cases[:200:40] + cases[-3:]:
        samples.append(c)
    ev = dict(
        property_id=pid, tier=tier, seed=args.seed, level="proof",
        coverage=dict(
            obligations=obligations, discharged=discharged,
            checker_cmd="cd coq && make -j16 %s && coqc -Q . PyD Props/%s.v "
                        "(Print Assumptions) && coqc <generated correspondence shards>"
                        % (" ".join(mod.COQ_TARGETS), pid),
            trusted_base=TRUSTED_BASE_COMMON + list(getattr(mod, "TRUSTED", [])),
            theorems=pr["theorems"],
            axioms_reported=pr["axioms"],
            tie_a=tie_status,
            correspondence_shards=corr["shards"],
            correspondence_shards_ok=corr["ok"],
            evaluations=len(cases),
            distinct_nontrivial=n_nontrivial,
            rule=getattr(mod, "RULE", ""),
            samples=samples,
            input_distribution=hist,
            exhaustive=bool(getattr(mod, "EXHAUSTIVE", {}).get(tier, False)),
            known_findings_observed=sorted(known_seen),
            known_findings_not_reproduced=sorted(
                e["id"] for e in known if e["id"] not in known_seen),
            explanation=getattr(mod, "EXPLANATION", ""),
            notes=notes,
        ),
        assumptions=list(getattr(mod, "ASSUMPTIONS", [])),
        wall_s=round(wall, 2),
        violations=len(violations),
    )
    with open(os.path.join(VERIF, "evidence", pid + ".json"), "w") as f:
        json.dump(ev, f, indent=1, ensure_ascii=True)

    for fid, (case, fl) in sorted(known_seen.items()):
        e = [x for x in known if x["id"] == fid][0]
        print("KNOWN-FINDING: property=%s %s %s" % (pid, fid, e["what"]))
    if violations:
        for n, (what, payload, found) in enumerate(violations):
            payload = dict(payload)
            payload.update(property=pid, seed=args.seed, tier=tier, what=what)
            h = hashlib.sha1(canon(payload).encode()).hexdigest()[:10]
            rp = os.path.join(VERIF, "replays", pid, "%s_%s.json" % (pid, h))
            with open(rp, "w") as f:
                json.dump(payload, f, indent=1, ensure_ascii=True)
            log(what)
            print("VIOLATION property=%s replay=%s%s"
                  % (pid, rp, "" if found else " no-failing-input-found"))
        return 1
    print("OK property=%s tier=%s obligations=%d discharged=%d cases=%d wall=%.1fs"
          % (pid, tier, obligations, discharged, len(cases), wall))
    return 0


if __name__ == "__main__":
    sys.exit(main())
