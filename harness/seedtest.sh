#!/bin/bash
# usage: harness/seedtest.sh <ID> [<checkid>...]   — confirm a seeded change in its scratch
# worktree, then run the named checks (default: the same ID) against /repo with it applied.
ID=$1; shift; CHECKS=${@:-$ID}
WT=/tmp/wt/$ID; OUT=/tmp/seedout/$ID
set -u
echo "== confirm in scratch worktree $WT"
git -C $WT checkout -q -- . ; 
PYTHONPATH=$WT /venv/bin/python -W ignore $OUT/demo.py >/dev/null 2>&1; echo "demo without change: exit $?"
git -C $WT apply $OUT/patch.diff || { echo "patch does not apply in worktree"; exit 2; }
( cd $WT && /venv/bin/python -m pytest -q -p no:cacheprovider tests 2>&1 | tail -1 )
PYTHONPATH=$WT /venv/bin/python -W ignore $OUT/demo.py >/dev/null 2>&1; echo "demo with change: exit $?"
echo "== apply to /repo and run checks"
git -C /repo apply $OUT/patch.diff || { echo "patch does not apply"; exit 2; }
for c in $CHECKS; do
  ( cd /verif && ./check $c --tier quick 2>&1 | grep -E "VIOLATION|^OK|KNOWN" | cut -c1-300 )
done
git -C /repo checkout -- .
git -C /repo status --short | head -3
