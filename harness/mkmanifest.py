"""Regenerates /verif/MANIFEST.json from the property modules that exist."""
import importlib
import json
import os

VERIF = os.path.dirname(os.path.dirname(os.path.abspath(__file__)))
ALL = ["C%02d" % i for i in range(1, 21)]
NOT_BUILT = {}


def main():
    checks, na = [], []
    for pid in ALL:
        path = os.path.join(VERIF, "harness", "props", pid.lower() + ".py")
        if not os.path.exists(path):
            na.append({"property_id": pid,
                       "reason": NOT_BUILT.get(pid, "no Coq model/check has been built for this "
                                               "property yet (see DESIGN.md section 11); not claimed")})
            continue
        mod = importlib.import_module("harness.props." + pid.lower())
        checks.append({
            "property_id": pid,
            "quick_cmd": "./check %s --tier quick" % pid,
            "thorough_cmd": "./check %s --tier thorough" % pid,
            "evidence_file": "evidence/%s.json" % pid,
            "replay_cmd_template": "./check %s --replay {path}" % pid,
            "engine": "coq-model+correspondence",
            "level_claimed": {"category": "proof", "text": mod.LEVEL_TEXT,
                              "design_ref": mod.DESIGN_REF},
            "level_note": mod.LEVEL_NOTE,
            "technique": mod.TECHNIQUE,
        })
    man = {
        "version": 1,
        "setup_cmd": "./setup.sh",
        "hooks": {
            "guard": "DELPH_IN_PYDELPHIN_VERIF",
            "enable": "no source hook is needed in /repo: every observation goes through the functions of the "
                      "unmodified package; two wrappers are put around package functions at run time, in the driver "
                      "process of the check only (ACEProcess._result_lines for C19, to record the raw answer lines; "
                      "itsdb._add_row and the TestSuite's commit for C10, to record the rows batch processing "
                      "produces and count its commits); the variable is exported by the harness but read nowhere",
            "baseline_off_cmd": "cd /repo && /venv/bin/python -m pytest -ra -q -p no:cacheprovider "
                                "--timeout=900 --continue-on-collection-errors",
            "source_commits": [],
            "add_only": True,
        },
        "engines": [{
            "name": "coq-model+correspondence",
            "path": "harness/core.py",
            "serves_properties": [c["property_id"] for c in checks],
            "kind_free_text": "Coq 8.16 proofs over executable Gallina models (coq/), tied to /repo by "
                              "regenerated kernels (harness/translate) and kernel-checked "
                              "correspondence shards (vm_compute) on inputs the implementation ran",
        }],
        "checks": checks,
        "not_applicable": na,
        "notes": "See DESIGN.md. KNOWN_FINDINGS.jsonl lists genuine defects of the unchanged tree.",
    }
    fixes = os.path.join(VERIF, "FIX_COMMITS.txt")
    if os.path.exists(fixes):
        with open(fixes) as f:
            man["hooks"]["source_commits"] = [l.split()[0] for l in f if l.strip()]
    with open(os.path.join(VERIF, "MANIFEST.json"), "w") as f:
        json.dump(man, f, indent=1)
    print("claimed:", [c["property_id"] for c in checks])


if __name__ == "__main__":
    main()
