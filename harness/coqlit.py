"""Printers for Coq literals used in generated correspondence shards.

Strings are `list N` of code points; the shard files open N_scope, so bare
numerals are N; integers are written with an explicit %Z.
"""


def cstr(s):
    """Python str -> Coq `str` (list N)."""
    if s is None:
        raise ValueError("cstr(None)")
    return "[" + ";".join(str(ord(c)) for c in s) + "]"


def cZ(z):
    return "(%d)%%Z" % z


def cnat(n):
    assert 0 <= n < 5000, n
    return "%d%%nat" % n


def cN(n):
    assert n >= 0
    return "%d" % n


def cbool(b):
    return "true" if b else "false"


def copt(x, f):
    return "None" if x is None else "(Some %s)" % f(x)


def clist(xs, f):
    return "[" + "; ".join(f(x) for x in xs) + "]"


def cpair(p, f, g):
    return "(%s, %s)" % (f(p[0]), g(p[1]))


def ctuple(*parts):
    return "(" + ", ".join(parts) + ")"


def app(ctor, *args):
    if not args:
        return ctor
    return "(" + ctor + " " + " ".join(args) + ")"
