"""YY token lattices for C14: generation, observation of delphin.tokens, Coq terms."""
from harness.coqlit import cstr, cZ, copt, clist, app

YY_CH = 'ab "\\\\ \n(),<>:1-'
YY_MUT = '(),"\\ <>:-10a\n'

FIXED_TEXTS = [
    '(1, 0, 1, <0:3>, 1, "a\\b", 0, "null")',
    '(1, 0, 1, 1, "dog" "Dog", 0, "null" "x")',
    '(1, 0, 1, <0:3>, 1 2, "a", 0, "null", "NN" 0.9)',
    '(1, 0, 1, <0:3>, 1-2, "a", 0, "null")',
    '( 1 , 0 , 1 , <0:3> , 1 , "a" , 0 , "null" )',
    '(1, 0, 1, <0:3>, 1, "a, 0, "null")',
    '(1, 0, 1, <0:3>, 1, "say \\"hi\\"", 0, "null") (2, 1, 2, <4:5>, 1, "\\\\", 0, "null")',
    '',
]


def _str(rng, n):
    return "".join(rng.choice(YY_CH) for _ in range(rng.randrange(0, n)))


def gen_tok(rng, repp_like):
    def ri():
        return rng.choice([0, 1, 2, 10, -1, -5, 123, 7])
    if repp_like:
        i = rng.randrange(0, 5)
        a = rng.randrange(0, 20)
        return {"id": i, "start": i, "end": i + 1, "lnk": [a, a + rng.randrange(0, 6)], "paths": [1],
                "form": _str(rng, 6), "surface": None, "ipos": 0, "lrules": ["null"]}
    return {"id": ri(), "start": ri(), "end": ri(), "lnk": None if rng.random() < 0.3 else [ri(), ri()],
            "paths": [ri() for _ in range(rng.randrange(1, 3))], "form": _str(rng, 5),
            "surface": None if rng.random() < 0.7 else _str(rng, 4), "ipos": ri(),
            "lrules": [(_str(rng, 3) or "null") for _ in range(rng.randrange(1, 3))]}


def wf(t):
    """the tokens the round-trip theorem speaks about"""
    return bool(t["paths"]) and bool(t["lrules"]) and t["lnk"] != [-1, -1] and \
        all(not any(ch.isspace() for ch in lr) for lr in t["lrules"])


def ref_print(t):
    """reference spelling of one token (quotes and backslashes escaped), used to derive parser inputs"""
    def q(x):
        return '"' + x.replace("\\", "\\\\").replace('"', '\\"') + '"'
    parts = [str(t["id"]), str(t["start"]), str(t["end"])]
    if t["lnk"] is not None and t["lnk"] != [-1, -1]:
        parts.append("<%d:%d>" % tuple(t["lnk"]))
    parts.append(" ".join(map(str, t["paths"] or [1])))
    parts.append(q(t["form"]) if t["surface"] is None else q(t["form"]) + " " + q(t["surface"]))
    parts += [str(t["ipos"]), " ".join(q(x) for x in t["lrules"])]
    return "(" + ", ".join(parts) + ")"


def gen_cases(rng, tier):
    cases = []
    n = 150 if tier == "quick" else 1500
    for _ in range(n):
        toks = [gen_tok(rng, rng.random() < 0.5) for _ in range(rng.randrange(0, 4))]
        cases.append({"k": "yyprint", "toks": toks})
        text = " ".join(ref_print(t) for t in toks)
        if rng.random() < 0.6:
            tl = list(text)
            for _ in range(rng.randrange(1, 3)):
                r = rng.random()
                if r < 0.4 and tl:
                    del tl[rng.randrange(len(tl))]
                elif r < 0.8:
                    tl.insert(rng.randrange(len(tl) + 1), rng.choice(YY_MUT))
                elif tl:
                    tl[rng.randrange(len(tl))] = rng.choice(YY_MUT)
            text = "".join(tl)
        cases.append({"k": "yyparse", "s": text})
    for text in FIXED_TEXTS:
        cases.append({"k": "yyparse", "s": text})
    return cases


def lattice(toks):
    from delphin.tokens import YYToken, YYTokenLattice
    from delphin.lnk import Lnk
    return YYTokenLattice([YYToken(t["id"], t["start"], t["end"],
                                   None if t["lnk"] is None else Lnk.charspan(*t["lnk"]),
                                   t["paths"], t["form"], t["surface"], t["ipos"], t["lrules"]) for t in toks])


def _obs_tok(t):
    from delphin.lnk import Lnk
    lnk = None
    if t.lnk is not None and t.lnk.type == Lnk.CHARSPAN:
        lnk = list(t.lnk.data)
    return {"id": t.id, "start": t.start, "end": t.end, "lnk": lnk, "paths": list(t.paths), "form": t.form,
            "surface": t.surface, "ipos": t.ipos, "lrules": list(t.lrules)}


def observe(c):
    from delphin.tokens import YYTokenLattice
    if c["k"] == "yyprint":
        return {"text": str(lattice(c["toks"]))}
    try:
        lat = YYTokenLattice.from_string(c["s"])
    except ValueError:
        return {"r": "valueerror"}
    if any(t.pos for t in lat.tokens):
        return {"r": "unmodelled"}
    return {"r": "ok", "toks": [_obs_tok(t) for t in lat.tokens]}


def oracle(c):
    from delphin.tokens import YYTokenLattice
    if c["k"] != "yyprint" or not all(wf(t) for t in c["toks"]):
        return None
    lat = lattice(c["toks"])
    text = str(lat)
    back = YYTokenLattice.from_string(text)
    if back != lat:
        return "the token lattice with forms %r does not survive YY serialisation: %r reads back as %r" % (
            [t["form"] for t in c["toks"]], text, [t.form for t in back.tokens])
    return None


def nontrivial(c):
    if c["k"] == "yyprint":
        return any('"' in t["form"] or "\\" in t["form"] for t in c["toks"])
    return "(" in c["s"]


def _c_tok(t):
    return ("{| y_id := %s; y_start := %s; y_end := %s; y_lnk := %s; y_paths := %s; y_form := %s; "
            "y_surface := %s; y_ipos := %s; y_lrules := %s |}") % (
        cZ(t["id"]), cZ(t["start"]), cZ(t["end"]),
        copt(t["lnk"], lambda l: "(%s, %s)" % (cZ(l[0]), cZ(l[1]))),
        clist(t["paths"], cZ), cstr(t["form"]), copt(t["surface"], cstr), cZ(t["ipos"]), clist(t["lrules"], cstr))


def coq_case(c, o):
    if "exc" in o:
        raise ValueError("implementation raised " + o["exc"])
    if c["k"] == "yyprint":
        return app("CYYPrint", clist(c["toks"], _c_tok), cstr(o["text"]))
    if o["r"] == "unmodelled":
        return None
    if o["r"] == "valueerror":
        return app("CYYParse", cstr(c["s"]), "OValueError")
    return app("CYYParse", cstr(c["s"]), app("OToks", clist(o["toks"], _c_tok)))
