"""Shared generator, driver and Coq printers for the REPP properties C13/C14."""
import itertools
import random
import re

from harness.coqlit import cstr, cZ, copt, clist, app, cbool, cnat

# (pattern, ngroups, outside) outside = pattern has matched material outside capture groups
PATTERNS = [
    ("a", 0, True), ("b", 0, True), ("ab", 0, True), (" +", 0, True), ("[ab]", 0, True),
    ("a+", 0, True), ("b*", 0, True), ("a?b", 0, True), ("^a", 0, True), ("c$", 0, True),
    ("^", 0, True), ("$", 0, True), ("[^ ]c", 0, True), ("a|bc", 0, True),
    ("(a)", 1, False), ("(a+)", 1, False), ("([ab])", 1, False), ("(a)c", 1, True),
    ("c(a)", 1, True), ("(a)?b", 1, True), ("(b*)", 1, False), ("( )+", 1, True),
    ("(a)(b)", 2, False), ("(a)(b)?", 2, False), ("([ab])([ab])", 2, False), ("(a)c(b)", 2, True),
    ("(a)|(b)", 2, False), ("(a)(b)*", 2, False), ("(^| )(a)", 2, False), ("wo(n)'t", 1, True),
    ("(a)(b)(c)", 3, False), ("(a)(b)?(c)", 3, False), ("(a(b))", 2, False),
]
TEMPLATES = {
    0: ["", "x", " ", "ab", "a a"],
    1: ["\\1", "", "x", "\\1\\1", "x\\1", "\\1x", " \\1 ", "x\\1y", "will \\1ot"],
    2: ["\\1\\2", "\\2\\1", "\\1 \\2", "\\1", "\\2", "x\\1y\\2z", "\\1\\2\\1", "", "\\2", "\\1x"],
    3: ["\\1\\2\\3", "\\1\\3", "\\3\\2\\1", "\\1 \\2 \\3", "\\2"],
}
BAD_TEMPLATES = [(1, "\\2"), (0, "\\1"), (1, "a\\"), (1, "\\x"), (2, "\\3b")]
TOKPATS = ["[ \t]+", " ", "c+", "[ c]"]
ALPHA = "abc "


def _rand_rule(rng):
    pat, ng, outside = rng.choice(PATTERNS)
    tmpl = rng.choice(TEMPLATES[ng])
    return {"t": "rule", "pat": pat, "ng": ng, "tmpl": tmpl}


def _rand_items(rng, depth, names):
    items = []
    for _ in range(rng.randrange(1, 4)):
        r = rng.random()
        if r < 0.65 or depth >= 2:
            items.append(_rand_rule(rng))
        elif r < 0.88:
            items.append({"t": "iter", "items": _rand_items(rng, depth + 1, names)})
        else:
            name = rng.choice(["m1", "m2"])
            items.append({"t": "ext", "name": name,
                          "items": [_rand_rule(rng) for _ in range(rng.randrange(1, 3))]})
    if depth == 0 and rng.random() < 0.15:
        # the same iterative group called twice
        it = {"t": "iter", "items": [_rand_rule(rng)]}
        items.append(it)
        items.append(_rand_rule(rng))
        items.append(it)
    return items


FIXED_PROGRAMS = [
    [{"t": "rule", "pat": "(a)c", "ng": 1, "tmpl": "\\1"}],
    [{"t": "rule", "pat": "wo(n)'t", "ng": 1, "tmpl": "will \\1ot"}],
    [{"t": "rule", "pat": "(a)?b", "ng": 1, "tmpl": "\\1c"}],
    [{"t": "iter", "items": [{"t": "rule", "pat": "aa", "ng": 0, "tmpl": "a"}]}],
    [{"t": "iter", "items": [{"t": "rule", "pat": "(^| )(a)", "ng": 2, "tmpl": "\\1\\2 "},
                             {"t": "iter", "items": [{"t": "rule", "pat": "  ", "ng": 0, "tmpl": " "}]}]}],
    [{"t": "rule", "pat": "a", "ng": 0, "tmpl": "bb"}, {"t": "rule", "pat": "bb", "ng": 0, "tmpl": "c"}],
    [{"t": "ext", "name": "m1", "items": [{"t": "rule", "pat": "a", "ng": 0, "tmpl": "x"}]},
     {"t": "rule", "pat": "b", "ng": 0, "tmpl": ""}],
    [{"t": "mask", "pat": "a+"}],
    [{"t": "mask", "pat": "b"}, {"t": "mask", "pat": " "}],
    [],
    # matches whose length changes cancel within one step (a run grows, another shrinks)
    [{"t": "rule", "pat": "a+", "ng": 0, "tmpl": "ab"}],
    [{"t": "rule", "pat": " +", "ng": 0, "tmpl": "  "}, {"t": "rule", "pat": "b*", "ng": 0, "tmpl": "x"}],
    # literals between in-order group references where the following group is optional/absent or empty
    [{"t": "rule", "pat": "(a)(b)?", "ng": 2, "tmpl": "\\1 - \\2"}],
    [{"t": "rule", "pat": "(a)(b)?(c)", "ng": 3, "tmpl": "\\1 + \\2\\3"}],
    [{"t": "rule", "pat": "(a)(b)*", "ng": 2, "tmpl": "x\\1y\\2z"}, {"t": "rule", "pat": "y", "ng": 0, "tmpl": ""}],
    [{"t": "rule", "pat": "(a)|(b)", "ng": 2, "tmpl": "\\1.\\2"}],
    # a group nested in the previously referenced one (it starts before the current position)
    [{"t": "rule", "pat": "(a(b))", "ng": 2, "tmpl": "\\1 \\2"}],
    [{"t": "rule", "pat": " +", "ng": 0, "tmpl": "  "}, {"t": "rule", "pat": "(a(b))", "ng": 2, "tmpl": "\\1\\2"}],
    [{"t": "rule", "pat": "((a)b)c", "ng": 2, "tmpl": "x\\1\\2"}],
]


# a non-empty match whose replacement is empty because the template consists only of references to
# groups that did not take part in the match or matched the empty string: the match is deleted, and
# everything after it has to be attributed as after a deletion
LATE_FIXED_PROGRAMS = [
    [{"t": "rule", "pat": "c(a)?", "ng": 1, "tmpl": "\\1"}],
    [{"t": "rule", "pat": "b(a*)", "ng": 1, "tmpl": "\\1"}],
    [{"t": "rule", "pat": "(a)?c(b)?", "ng": 2, "tmpl": "\\1\\2"}],
    [{"t": "rule", "pat": " (c)?", "ng": 1, "tmpl": "\\1"}, {"t": "rule", "pat": "a", "ng": 0, "tmpl": "bb"}],
    [{"t": "iter", "items": [{"t": "rule", "pat": "c(a)?", "ng": 1, "tmpl": "\\1"}]},
     {"t": "rule", "pat": "b", "ng": 0, "tmpl": "a a"}],
]


class _Diverges(Exception):
    pass


def _converges(items, s, active, budget):
    """reference run with an iteration/size cap (generator-side filter only)"""
    for it in items:
        if it["t"] == "rule":
            s = re.sub(it["pat"], it["tmpl"], s)
            if len(s) > 60:
                raise _Diverges()
        elif it["t"] == "iter":
            while True:
                budget[0] -= 1
                if budget[0] < 0:
                    raise _Diverges()
                o = _converges(it["items"], s, active, budget)
                if o == s:
                    break
                s = o
        elif it["t"] == "ext" and it["name"] in active:
            s = _converges(it["items"], s, active, budget)
    return s


def terminates(prog, s, active):
    try:
        _converges(prog, s, active, [25])
        return True
    except _Diverges:
        return False


def gen_cases(rng, tier):
    cases = []
    progs = list(FIXED_PROGRAMS)
    nprog = 30 if tier == "quick" else 150
    for _ in range(nprog):
        progs.append(_rand_items(rng, 0, []))
    # appended after the random programs so that their choices stay what they were
    progs.extend(LATE_FIXED_PROGRAMS)
    maxlen = 3 if tier == "quick" else 4
    strings = ["".join(t) for n in range(0, maxlen + 1) for t in itertools.product(ALPHA, repeat=n)]
    extra = ["I won't go", "x ac y z", "xb ab", "aaaa", "a b  c", "abcabc ab", "  a  ", "won't won't",
             "a c aaa", "aaa c a c", "c a   b", "a   b c"]
    for p in progs:
        p = normalise(p)
        active = rng.choice([[], ["m1"], ["m1", "m2"]])
        tokpat = rng.choice(TOKPATS)
        # a fifth of the programs are loaded from files with `<` includes instead of from a string
        files = rng.randrange(1, 10 ** 6) if rng.random() < 0.2 else None
        # a constructor default that the per-call activation overrides (also by an empty one)
        ctor = rng.choice([["m1"], ["m1", "m2"], ["m2"], []]) if rng.random() < 0.3 else None
        for s in strings + extra:
            if terminates(p, s, active):
                cases.append({"k": "repp", "prog": p, "active": active, "s": s, "tokpat": tokpat})
                if ctor is not None and len(s) >= 1 and rng.random() < 0.3:
                    cases.append({"k": "repp", "prog": p, "active": active, "s": s, "tokpat": tokpat,
                                  "ctor_active": ctor})
                if files is not None and len(s) >= 2 and rng.random() < 0.3:
                    cases.append({"k": "repp", "prog": p, "active": active, "s": s, "tokpat": tokpat,
                                  "files": files})
        for _ in range(6):
            s = "".join(rng.choice(ALPHA + "ab ") for _ in range(rng.randrange(5, 14)))
            if terminates(p, s, active):
                cases.append({"k": "repp", "prog": p, "active": active, "s": s, "tokpat": tokpat})
        # systematically, for every program (choices drawn from a generator of their own so that the
        # cases above do not depend on them): the program loaded from files with `<` includes under two
        # different splits, and - when it calls external modules - a constructor default that the
        # per-call activation overrides, in both directions (also by an empty one)
        import json
        lrng = random.Random(json.dumps(p, sort_keys=True))
        names = sorted(_ext_names(p))
        pool = extra + lrng.sample([x for x in strings if len(x) >= 2], 6)
        for s in pool:
            for fseed in (1, 2):
                for act in ([names, []] if names else [active]):
                    if terminates(p, s, act):
                        cases.append({"k": "repp", "prog": p, "active": act, "s": s, "tokpat": tokpat,
                                      "files": fseed})
            if names:
                for act, ctor2 in (([], names), (names, []), (names[:1], names[-1:])):
                    if terminates(p, s, act):
                        cases.append({"k": "repp", "prog": p, "active": act, "s": s, "tokpat": tokpat,
                                      "ctor_active": ctor2})
    for ng, tmpl in BAD_TEMPLATES:
        cases.append({"k": "badtmpl", "ng": ng, "tmpl": tmpl})
    return cases


def _ext_names(items):
    out = set()
    for it in items:
        if it["t"] == "ext":
            out.add(it["name"])
        if it["t"] in ("iter", "ext"):
            out |= _ext_names(it["items"])
    return out


def has_mask(items):
    for it in items:
        if it["t"] == "mask":
            return True
        if it["t"] in ("iter", "ext") and has_mask(it["items"]):
            return True
    return False


def rules_of(items):
    for it in items:
        if it["t"] == "rule":
            yield it
        elif it["t"] in ("iter", "ext"):
            yield from rules_of(it["items"])


# ------------------------------------------------------------------ rendering to REPP text

def render(items):
    """-> (main text, {module name: text})"""
    counter = [0]
    defined = {}
    modules = {}

    def go(items):
        lines = []
        for it in items:
            if it["t"] == "rule":
                lines.append("!%s\t\t%s" % (it["pat"], it["tmpl"]))
            elif it["t"] == "mask":
                lines.append("=%s" % it["pat"])
            elif it["t"] == "iter":
                key = id(it)
                if key not in defined:
                    counter[0] += 1
                    n = counter[0]
                    defined[key] = n
                    body = go(it["items"])
                    lines.append("#%d" % n)
                    lines.extend(body)
                    lines.append("#")
                lines.append(">%d" % defined[key])
            elif it["t"] == "ext":
                sub_counter = counter[0]
                text = "\n".join(go_ext(it["items"]))
                modules.setdefault(it["name"], text)
                lines.append(">%s" % it["name"])
        return lines

    def go_ext(items):
        return ["!%s\t\t%s" % (i["pat"], i["tmpl"]) for i in items]
    # external modules of the same name must have the same body: enforce by reuse
    main = "\n".join(go(items))
    return main, modules


def normalise(items, seen=None):
    """make all ext modules with the same name share the first body"""
    seen = {} if seen is None else seen
    out = []
    for it in items:
        if it["t"] == "ext":
            if it["name"] not in seen:
                seen[it["name"]] = it["items"]
            out.append({"t": "ext", "name": it["name"], "items": seen[it["name"]]})
        elif it["t"] == "iter":
            it2 = it if "_norm" in it else None
            body = normalise(it["items"], seen)
            it["items"] = body
            out.append(it)
        else:
            out.append(it)
    return out


def call_kw(case):
    """per-call activation: cases with a constructor default (`ctor_active`) pass the effective
    activation explicitly with every call, also when it is empty"""
    return {"active": list(case["active"])} if "ctor_active" in case else {}


def build(case):
    import warnings
    warnings.simplefilter("ignore")
    from delphin import repp
    prog = normalise(case["prog"])
    main, modules = render(prog)
    mods = {name: repp.REPP.from_string(text, name=name) for name, text in modules.items()}
    if case.get("files") is None:
        r = repp.REPP.from_string(main, modules=mods, active=case.get("ctor_active", case["active"]))
        return r, prog
    # the same program loaded from files: contiguous runs of lines moved to included files
    # (`<file`, also nested), external modules found as <name>.rpp next to the main file
    import os
    import random
    import shutil
    import tempfile
    frng = random.Random(case["files"])
    d = tempfile.mkdtemp(prefix="verif_repp_")
    try:
        for name, text in modules.items():
            with open(os.path.join(d, name + ".rpp"), "w") as f:
                f.write(text + "\n")
        lines = main.split("\n") if main else []
        if lines:
            i = frng.randrange(0, len(lines))
            j = frng.randrange(i + 1, len(lines) + 1)
            inc = lines[i:j]
            lines = lines[:i] + ["<inc1.rpp"] + lines[j:]
            if len(inc) >= 2 and frng.random() < 0.4:
                a = frng.randrange(0, len(inc))
                b = frng.randrange(a + 1, len(inc) + 1)
                with open(os.path.join(d, "inc2.rpp"), "w") as f:
                    f.write("\n".join(inc[a:b]) + "\n")
                inc = inc[:a] + ["<inc2.rpp"] + inc[b:]
            with open(os.path.join(d, "inc1.rpp"), "w") as f:
                f.write("\n".join(inc) + "\n")
        with open(os.path.join(d, "main.rpp"), "w") as f:
            f.write("\n".join(lines) + "\n")
        r = repp.REPP.from_file(os.path.join(d, "main.rpp"), active=case.get("ctor_active", case["active"]))
    finally:
        shutil.rmtree(d, ignore_errors=True)
    return r, prog


def _mt(m, ngroups):
    groups = []
    for g in range(1, ngroups + 1):
        a, b = m.span(g)
        groups.append(None if a < 0 else [a, b])
    return {"s": m.start(), "e": m.end(), "g": groups, "li": m.lastindex}


def rid_table(prog):
    table = {}
    for r in rules_of(prog):
        key = (r["pat"], r["tmpl"])
        if key not in table:
            table[key] = len(table)
    return table


def run_impl(case):
    """verbose trace, result, tokens and the regex-oracle table"""
    r, prog = build(case)
    rids = rid_table(prog)
    bystr = {"!%s\t\t%s" % k: (v, k[0]) for k, v in rids.items()}
    steps = []
    orc = {}
    result = None
    for st in r.trace(case["s"], verbose=True, **call_kw(case)):
        if hasattr(st, "operation"):
            steps.append({"in": st.input, "out": st.output, "applied": bool(st.applied),
                          "smap": list(st.startmap), "emap": list(st.endmap)})
            key = str(st.operation)
            if key in bystr and st.operation.__class__.__name__.endswith("Rule"):
                rid, pat = bystr[key]
                c = re.compile(pat)
                orc[(rid, st.input)] = [_mt(m, c.groups) for m in c.finditer(st.input)]
        else:
            result = {"string": st.string, "smap": list(st.startmap), "emap": list(st.endmap)}
    tms = [_mt(m, 0) for m in re.finditer(case["tokpat"], result["string"])]
    lat = r.tokenize(case["s"], pattern=case["tokpat"], **call_kw(case))
    toks = [[t.lnk.data[0], t.lnk.data[1], t.form] for t in lat.tokens]
    return {"steps": steps, "result": result, "tms": tms, "toks": toks,
            "orc": [[k[0], k[1], v] for k, v in orc.items()]}


def observe(case):
    if case["k"] == "badtmpl":
        import warnings
        warnings.simplefilter("ignore")
        from delphin import repp
        pat = "".join("(a)" for _ in range(case["ng"])) or "a"
        try:
            repp.REPP.from_string("!%s\t\t%s" % (pat, case["tmpl"]))
            return {"ok": True}
        except Exception as e:
            return {"ok": False, "exc": type(e).__name__}
    try:
        return run_impl(case)
    except Exception as e:
        return {"exc": type(e).__name__ + ":" + str(e)[:100]}


# ------------------------------------------------------------------ Coq side

def _sop(it, rids):
    if it["t"] == "rule":
        return app("SRule", cnat(rids[(it["pat"], it["tmpl"])]), cnat(it["ng"]), cstr(it["tmpl"]))
    if it["t"] == "mask":
        return app("SMask", cnat(999))
    if it["t"] == "iter":
        return app("SIter", clist(it["items"], lambda x: _sop(x, rids)))
    return app("SExt", cstr(it["name"]), clist(it["items"], lambda x: _sop(x, rids)))


def _m(m):
    return ("{| m_start := %s; m_end := %s; m_groups := %s; m_last := %s |}"
            % (cnat(m["s"]), cnat(m["e"]),
               clist(m["g"], lambda g: copt(g, lambda p: "(%s, %s)" % (cnat(p[0]), cnat(p[1])))),
               copt(m["li"], cnat)))


def _step(s):
    return ("{| st_in := %s; st_out := %s; st_applied := %s; st_smap := %s; st_emap := %s; st_leaf := true |}"
            % (cstr(s["in"]), cstr(s["out"]), cbool(s["applied"]),
               clist(s["smap"], cZ), clist(s["emap"], cZ)))


def coq_case(case, o):
    if case["k"] == "badtmpl":
        if o["ok"]:
            return None
        return app("CTmplBad", cnat(case["ng"]), cstr(case["tmpl"]))
    if "exc" in o:
        raise ValueError("implementation raised " + o["exc"])
    prog = normalise(case["prog"])
    if has_mask(prog) and any(True for _ in rules_of(prog)):
        return None      # masks followed by rules are outside the model
    rids = rid_table(prog)
    res = o["result"]
    return app("CRepp", clist(prog, lambda x: _sop(x, rids)), clist(case["active"], cstr),
               cstr(case["s"]),
               clist(o["orc"], lambda e: "(%s, %s, %s)" % (cnat(e[0]), cstr(e[1]), clist(e[2], _m))),
               clist(o["tms"], _m), clist(o["steps"], _step),
               "{| res_string := %s; res_smap := %s; res_emap := %s |}"
               % (cstr(res["string"]), clist(res["smap"], cZ), clist(res["emap"], cZ)),
               clist(o["toks"], lambda t: "(%s, %s, %s)" % (cZ(t[0]), cZ(t[1]), cstr(t[2]))))
