"""C14 — REPP character spans point back to the original text."""
import re

from harness.props import repp_common as rc
from harness.props import yy_common as yy
from harness.coqlit import app

ID = "C14"
COQ_TARGETS = ["Props/C14.vo", "Corr/C14.vo"]
TIE_A = []
CASE_TIMEOUT = 5
RULE = ("the C13 programs and inputs; compared: both offset maps of every step and of the result, and the "
        "token spans for four tokenizer patterns. The oracle tags every input character with its origin, "
        "replays the substitutions, and checks every token made of contiguous carried-over characters. "
        "Non-trivial = a rule matched and the result has a token; distinct = canonical JSON.")
EXHAUSTIVE = {"quick": True, "thorough": True}
EXPLANATION = ("Map lengths, gap provenance and the provenance of characters carried through in-order capture "
               "groups (optional, empty and nested groups included) are theorems for every program step, match "
               "list and template.")
ASSUMPTIONS = list(__import__("harness.props.c13", fromlist=["ASSUMPTIONS"]).ASSUMPTIONS) + [
    "YY format: Model/YY.v models YYToken.__str__ and the regular expression of from_string as a left-to-right "
    "scanner over ASCII; part-of-speech tags (floats) are outside the model and such cases are not sent to it",
]
TRUSTED = []
LEVEL_TEXT = ("Proof (Coq, no axioms): both offset maps of every step of every program have one entry per "
              "output position plus two sentinels, and so have the merged result maps; every output character "
              "copied from outside all matches is attributed to exactly its original position whatever was "
              "inserted/deleted before it (the net length change of every match is accounted exactly, for "
              "every template); tokenization yields the maximal separator-free pieces (model of _tokenize); a token lattice "
              "survives YY serialisation and parsing unchanged whatever its forms contain (C14_yy_roundtrip). "
              "Maps, spans and tokens are tied to delphin/repp.py by kernel-checked correspondence.")
LEVEL_NOTE = ("Partial: the composition of provenance across several rules (mergemap) and token spans are covered by "
              "correspondence and the tagging oracle. F31 (token forms were written unescaped, so a lattice with a quotation "
              "mark or a final backslash in a form did not survive YY serialisation) was repaired by a fix: commit. F9 (matched text left "
              "out by in-order group references was not accounted) was repaired by a fix: commit.")
TECHNIQUE = "Coq proof (length and provenance invariants of the rule loop) + kernel-checked correspondence + tagging oracle"
DESIGN_REF = "DESIGN.md section 6, C14"


def gen(rng, tier):
    cases = rc.gen_cases(rng, tier)
    # the same programs on texts with quotation marks and backslashes (the YY clause)
    extra = []
    for c in cases:
        if c["k"] == "repp" and c["s"] and rng.random() < 0.08:
            t = list(c["s"])
            for _ in range(rng.randrange(1, 3)):
                t.insert(rng.randrange(len(t) + 1), rng.choice(['"', chr(92), '"']))
            d = dict(c)
            d["s"] = "".join(t)
            # an iterative group may loop on the changed text: such pairs are outside the property
            # (as for the texts of C13, which are filtered the same way)
            if rc.terminates(rc.normalise(d["prog"]), d["s"], d["active"]):
                extra.append(d)
    return cases + extra + yy.gen_cases(rng, tier)


def observe(c):
    if c["k"] in ("yyprint", "yyparse"):
        return yy.observe(c)
    return rc.observe(c)


def coq_case(c, o):
    if c["k"] in ("yyprint", "yyparse"):
        return yy.coq_case(c, o)
    t = rc.coq_case(c, o)
    return None if t is None else app("CR", t)


def nontrivial(c):
    if c["k"] in ("yyprint", "yyparse"):
        return yy.nontrivial(c)
    if c["k"] != "repp":
        return False
    return any(re.search(r["pat"], c["s"]) for r in rc.rules_of(c["prog"]))


def _segments(tmpl):
    segs = []
    pos = 0
    for m in re.finditer(r"\\([1-9][0-9]?)", tmpl):
        if m.start() > pos:
            segs.append(tmpl[pos:m.start()])
        segs.append(int(m.group(1)))
        pos = m.end()
    if pos < len(tmpl):
        segs.append(tmpl[pos:])
    groups = [(i, g) for i, g in enumerate(segs) if isinstance(g, int)]
    last = 0
    for expected, (i, g) in zip(range(1, len(groups) + 1), groups):
        if g == expected:
            last = i + 1
    return segs[:last], segs[last:]


def _tagged(items, tagged, active):
    for it in items:
        if it["t"] == "rule":
            s = "".join(ch for ch, _ in tagged)
            tracked, untracked = _segments(it["tmpl"])
            out = []
            pos = 0
            for m in re.finditer(it["pat"], s):
                out.extend(tagged[pos:m.start()])
                for sg in tracked:
                    if isinstance(sg, int):
                        a, b = m.span(sg)
                        if a >= 0:
                            out.extend(tagged[a:b])
                    else:
                        out.extend((ch, None) for ch in sg)
                for sg in untracked:
                    txt = (m.group(sg) or "") if isinstance(sg, int) else sg
                    out.extend((ch, None) for ch in txt)
                pos = m.end()
            out.extend(tagged[pos:])
            tagged = out
        elif it["t"] == "iter":
            while True:
                o = _tagged(it["items"], tagged, active)
                if [c for c, _ in o] == [c for c, _ in tagged]:
                    tagged = o
                    break
                tagged = o
        elif it["t"] == "ext" and it["name"] in active:
            tagged = _tagged(it["items"], tagged, active)
    return tagged


def oracle(c):
    if c["k"] in ("yyprint", "yyparse"):
        return yy.oracle(c)
    if c["k"] != "repp":
        return None
    from delphin.tokens import YYTokenLattice
    r, prog = rc.build(c)
    s = c["s"]
    if rc.has_mask(prog) and any(True for _ in rc.rules_of(prog)):
        return None
    for st in r.trace(s, verbose=True, **rc.call_kw(c)):
        out = st.output if hasattr(st, "output") else st.string
        if len(st.startmap) != len(out) + 2 or len(st.endmap) != len(out) + 2:
            return "offset maps of length %d/%d for an output of length %d" % (
                len(st.startmap), len(st.endmap), len(out))
    lat = r.tokenize(s, pattern=c["tokpat"], **rc.call_kw(c))
    res = r.apply(s, **rc.call_kw(c))
    pieces = []
    pos = 0
    for m in re.finditer(c["tokpat"], res.string):
        if pos < m.start():
            pieces.append((pos, m.start()))
        pos = m.end()
    if pos < len(res.string):
        pieces.append((pos, len(res.string)))
    if [t.form for t in lat.tokens] != [res.string[a:b] for a, b in pieces]:
        return "tokens %r are not the maximal separator-free pieces of %r" % (
            [t.form for t in lat.tokens], res.string)
    if YYTokenLattice.from_string(str(lat)) != lat:
        return "the token lattice of %r (forms %r) does not survive YY serialisation" % (
            s, [t.form for t in lat.tokens])
    tagged = _tagged(prog, [(ch, i) for i, ch in enumerate(s)], c["active"])
    if "".join(ch for ch, _ in tagged) != res.string:
        return None   # string semantics differ: that is C13's business
    for t, (a, b) in zip(lat.tokens, pieces):
        cfrom, cto = t.lnk.data
        if not (0 <= cfrom <= len(s) and 0 <= cto <= len(s)):
            return "token %r has span (%d,%d) outside the original string" % (t.form, cfrom, cto)
        origins = [o for _, o in tagged[a:b]]
        if all(o is not None for o in origins) and origins == list(range(origins[0], origins[0] + len(origins))):
            if (cfrom, cto) != (origins[0], origins[-1] + 1):
                return "token %r carried over from [%d:%d] is reported at (%d,%d)" % (
                    t.form, origins[0], origins[-1] + 1, cfrom, cto)
            if s[cfrom:cto] != t.form:
                return "original[%d:%d] != %r" % (cfrom, cto, t.form)
    return None


def _risky(prog):
    """F9: a rule with an in-order group reference whose match has material the
    template accounts for by a literal or not at all"""
    flags = {p: outside for p, _, outside in rc.PATTERNS}
    for r in rc.rules_of(prog):
        tracked, _ = _segments(r["tmpl"])
        if any(isinstance(sg, int) for sg in tracked):
            if flags.get(r["pat"], True) or any(isinstance(sg, str) for sg in tracked) \
                    or len([sg for sg in tracked if isinstance(sg, int)]) < r["ng"]:
                return True
    return False


def known_match(case, failure, known):
    return None
