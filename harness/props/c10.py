"""C10 — an itsdb table behaves as a list through any edit/commit/reload
history (delphin.itsdb.Table / TestSuite on real temp directories)."""
import itertools

from harness.coqlit import cstr, cZ, cN, copt, clist, app, cbool, cnat

ID = "C10"
COQ_TARGETS = ["Props/C10.vo", "Corr/C10.vo"]
TIE_A = []
RULE = ("histories over one 2-column table with 0-3 stored rows (plain or gzip): all histories of "
        "length <=2 (quick) / <=3 (thorough) over a 24-operation alphabet (append, extend, int and "
        "slice assignments that keep, grow and shrink the table incl. negative indices and steps, "
        "update, clear, commit, reload, reopen) on a stored 3-row table, plus random histories of up "
        "to 12 operations; after every operation len, iteration, 5 index probes, 6 slice probes, "
        "in_transaction, the physical form and the rows a fresh TestSuite reads are compared; "
        "TestSuite.process with a stub processor for buffer sizes {0,1,2,3,5,1000} x gzip x pre-stored rows x "
        "pending rows: the rows _add_row received (recorded) are given to the model, which must predict the rows "
        "in memory and on disk per relation, in_transaction and the number of commits. Non-trivial = history contains a length-changing assignment or a commit after an "
        "edit; distinct = canonical JSON.")
EXHAUSTIVE = {"quick": True, "thorough": True}
EXPLANATION = ("Theorems: representation invariant and list refinement for open, len, indexing, slice reads "
               "with any step, append/extend, item and slice assignment (growing, shrinking, extended; "
               "ValueError leaves the list unchanged), update, clear, commit (incl. the append-only path and "
               "compressed files), reload, re-opening, and their composition over every history "
               "(C10_history: induction over the operation list). TestSuite.process is covered by the "
               "oracle, not by a theorem.")
ASSUMPTIONS = [
    "rows are compared by Row.data (formatted column strings); the round trip data -> cast -> format "
    "-> line -> split -> format is the identity on the generator's value space (non-coded columns)",
    "filesystem, gzip and mtime behaviour as for C09",
]
TRUSTED = []
LEVEL_TEXT = ("Proof (Coq, no axioms) that a table refines the plain list `list(table)`: invariant "
              "(placeholders have file lines; rows below the volatile index are untouched) established by "
              "open/sync and preserved by extend, clear, commit, reload; len and indexing (positive and "
              "negative) equal list semantics; commit makes the stored relation equal to the list in both "
              "the append-only and the rewrite path, never appends onto compressed data, is idempotent and "
              "ends the transaction; reload returns to the stored relation. Slice reads with any step equal "
              "list slicing; item and slice assignment (incl. the repaired length-changing ones, which load "
              "the rows that may shift) and update equal list assignment, a rejected assignment leaves the "
              "list unchanged; C10_history composes these over every operation sequence from any stored "
              "relation, plain or compressed. The model is tied to delphin by kernel-evaluated "
              "correspondence over exhaustive short and random long histories on real directories; batch "
              "processing is checked by the oracle.")
LEVEL_NOTE = ("C10_process: batch processing with any buffer size leaves every relation holding its former rows "
              "(none if cleared) followed by exactly the produced rows, in memory and on disk, outside a transaction, and a "
              "later commit changes neither (model of _add_row and process over the same tables). Partial only in that the "
              "FieldMapper and the processor are inputs of that model. Four genuine defects were repaired by fix: commits (F3, F4, F5, F19) and the "
              "model follows the repaired code.")
TECHNIQUE = "Coq refinement proof (table -> list) + kernel-checked correspondence on real directories"
DESIGN_REF = "DESIGN.md section 6, C10"

IPROBES = [0, 1, -1, 3, -4]
SPROBES = [[None, None, None], [1, None, None], [None, None, -1], [0, 4, 2], [-2, None, None], [3, 0, -2]]
R = lambda i, s: [str(i), s]


def _alphabet():
    a, b, c = R(10, "a"), R(11, "b"), R(12, "c")
    return [
        {"o": "extend", "rows": [a]},
        {"o": "extend", "rows": [a, b]},
        {"o": "setitem", "i": 0, "row": a},
        {"o": "setitem", "i": -1, "row": b},
        {"o": "setitem", "i": 3, "row": c},
        {"o": "setitem", "i": -5, "row": c},
        {"o": "setslice", "s": [0, 1, None], "rows": [a, b]},
        {"o": "setslice", "s": [0, 2, None], "rows": []},
        {"o": "setslice", "s": [-1, None, None], "rows": [a, b]},
        {"o": "setslice", "s": [1, 2, None], "rows": [c]},
        {"o": "setslice", "s": [1, 1, None], "rows": [c]},
        {"o": "setslice", "s": [None, None, 2], "rows": [a, b]},
        {"o": "setslice", "s": [None, None, -1], "rows": [a, b, c]},
        {"o": "setslice", "s": [None, None, 2], "rows": [a]},
        {"o": "setslice", "s": [2, 0, None], "rows": [b]},
        {"o": "setslice", "s": [None, None, None], "rows": [c]},
        {"o": "update", "i": 1, "k": 1, "v": "upd"},
        {"o": "update", "i": -1, "k": 0, "v": "77"},
        {"o": "clear"},
        {"o": "commit"},
        {"o": "reload"},
        {"o": "reopen"},
        {"o": "setslice", "s": [1, None, None], "rows": []},
        {"o": "setslice", "s": [5, None, None], "rows": [a]},
    ]


def _rand_op(rng):
    r = rng.random()
    row = lambda: R(rng.randrange(20, 99), rng.choice(["x", "y z", "a@b", "q\\", "é"]))
    if r < 0.2:
        return {"o": "extend", "rows": [row() for _ in range(rng.randrange(0, 3))]}
    if r < 0.32:
        return {"o": "setitem", "i": rng.randrange(-5, 5), "row": row()}
    if r < 0.55:
        s = [rng.choice([None, rng.randrange(-5, 6)]), rng.choice([None, rng.randrange(-5, 6)]),
             rng.choice([None, None, None, 1, 2, -1, -2, 0])]
        return {"o": "setslice", "s": s, "rows": [row() for _ in range(rng.randrange(0, 4))]}
    if r < 0.63:
        k = rng.randrange(0, 2)
        return {"o": "update", "i": rng.randrange(-4, 4), "k": k,
                "v": rng.choice(["5", "41"]) if k == 0 else rng.choice(["u", "v w"])}
    if r < 0.68:
        return {"o": "clear"}
    if r < 0.85:
        return {"o": "commit"}
    if r < 0.93:
        return {"o": "reload"}
    return {"o": "reopen"}


def gen(rng, tier):
    cases = []
    alpha = _alphabet()
    stored = [R(0, "s0"), R(1, "s1"), R(2, "s2")]
    maxlen = 2 if tier == "quick" else 3
    for gz in (False, True):
        for n in range(1, maxlen + 1):
            if gz and n == maxlen and tier == "thorough":
                continue
            for ops in itertools.product(alpha, repeat=n):
                cases.append({"k": "table", "gz": gz, "stored": stored, "ops": list(ops)})
    nrand = 300 if tier == "quick" else 4000
    for _ in range(nrand):
        n0 = rng.randrange(0, 4)
        cases.append({"k": "table", "gz": rng.random() < 0.35,
                      "stored": [R(i, "s%d" % i) for i in range(n0)] if rng.random() < 0.9 else None,
                      "ops": [_rand_op(rng) for _ in range(rng.randrange(1, 13))]})
    # structured histories: edits that reach back from uncommitted rows into stored ones,
    # with every kind of slice (negative steps and bounds), then commit / reload / reopen
    nstruct = 400 if tier == "quick" else 4000
    for _ in range(nstruct):
        n0 = rng.randrange(1, 4)
        ops = []
        if rng.random() < 0.8:
            ops.append({"o": "extend", "rows": [R(50 + i, "n%d" % i) for i in range(rng.randrange(1, 4))]})
        tot = n0 + (len(ops[0]["rows"]) if ops else 0)
        step = rng.choice([None, 1, -1, -1, 2, -2])
        a = rng.choice([None, rng.randrange(-tot - 1, tot + 2)])
        b = rng.choice([None, rng.randrange(-tot - 1, tot + 2)])
        nsel = len(range(*slice(a, b, step).indices(tot)))
        k = nsel if (step not in (None, 1) or rng.random() < 0.5) else rng.randrange(0, 4)
        ops.append({"o": "setslice", "s": [a, b, step], "rows": [R(70 + i, "r%d" % i) for i in range(k)]})
        if rng.random() < 0.3:
            ops.append({"o": "setitem", "i": rng.randrange(-tot, tot), "row": R(90, "z")})
        ops.append({"o": rng.choice(["commit", "commit", "commit", "reload"])})
        if rng.random() < 0.5:
            ops.append({"o": "extend", "rows": [R(95, "t")]})
            ops.append({"o": rng.choice(["commit", "reopen"])})
        cases.append({"k": "table", "gz": rng.random() < 0.25,
                      "stored": [R(i, "s%d" % i) for i in range(n0)], "ops": ops})
    for bs in (0, 1, 2, 3, 5, 1000):
        for gz in (False, True):
            for pre in (False, True):
                cases.append({"k": "process", "bs": bs, "gz": gz, "n": 3, "pre": pre})
                # item rows appended but not committed when processing starts
                cases.append({"k": "process", "bs": bs, "gz": gz, "n": 2, "pre": pre, "pending": 2})
    return cases


def nontrivial(c):
    if c["k"] == "process":
        return True
    kinds = [o["o"] for o in c["ops"]]
    return any(o["o"] == "setslice" and len(o["rows"]) != 1 for o in c["ops"]) or \
        ("commit" in kinds and kinds.index("commit") > 0)


# ------------------------------------------------------------------ implementation side
FIELDS = [["i-id", ":integer"], ["i-input", ":string"]]


def _setup(c):
    import tempfile
    from delphin import tsdb
    d = tempfile.mkdtemp(prefix="verif_c10_")
    fields = [tsdb.Field(n, dt) for n, dt in FIELDS]
    tsdb.write_schema(d, {"item": fields})
    if c["stored"] is not None:
        tsdb.write(d, "item", [(int(r[0]), r[1]) for r in c["stored"]], fields, gzip=c["gz"])
    return d, fields


def _val(r):
    return (int(r[0]), r[1])


def _data(row):
    return list(row.data)


def _snapshot(ts, d, st):
    import os
    from delphin import itsdb, tsdb
    t = ts["item"]
    items = []
    for i in IPROBES:
        try:
            items.append(_data(t[i]))
        except IndexError:
            items.append(None)
    slices = []
    for s in SPROBES:
        try:
            slices.append([_data(r) for r in t[slice(*s)]])
        except ValueError:
            slices.append(None)
    try:
        fresh = itsdb.TestSuite(d)["item"]
        disk = [_data(r) for r in fresh]
        fresh.close()
    except tsdb.TSDBError:
        disk = None
    it = [_data(r) for r in t]
    t.close()
    sel = [list(r.data) for r in t.select("i-input", "i-id")]
    return {"st": st, "len": len(t), "iter": it, "items": items, "slices": slices,
            "intx": ts.in_transaction, "tx": os.path.isfile(os.path.join(d, "item")),
            "gz": os.path.isfile(os.path.join(d, "item.gz")), "disk": disk, "select": sel}


def _apply(ts, d, o):
    from delphin import itsdb
    t = ts["item"]
    k = o["o"]
    try:
        if k == "extend":
            if len(o["rows"]) == 1:
                t.append(_val(o["rows"][0]))
            else:
                t.extend([_val(r) for r in o["rows"]])
        elif k == "setitem":
            t[o["i"]] = _val(o["row"])
        elif k == "setslice":
            t[slice(*o["s"])] = [_val(r) for r in o["rows"]]
        elif k == "update":
            col = FIELDS[o["k"]][0]
            t.update(o["i"], {col: (int(o["v"]) if o["k"] == 0 else o["v"])})
        elif k == "clear":
            t.clear()
        elif k == "commit":
            ts.commit()
        elif k == "reload":
            ts.reload()
        elif k == "reopen":
            return itsdb.TestSuite(d), 0
        return ts, 0
    except IndexError:
        return ts, 1
    except ValueError:
        return ts, 2
    except Exception as e:
        return ts, "exc:" + type(e).__name__ + ":" + str(e)[:80]


def _run_table(c):
    import shutil
    from delphin import itsdb
    d, fields = _setup(c)
    try:
        ts = itsdb.TestSuite(d)
        out = [_snapshot(ts, d, 0)]
        for o in c["ops"]:
            ts, st = _apply(ts, d, o)
            out.append(_snapshot(ts, d, st))
        return out
    finally:
        shutil.rmtree(d, ignore_errors=True)


REL = '''item:
  i-id :integer :key
  i-input :string

parse:
  parse-id :integer :key
  run-id :integer :key
  i-id :integer :key
  readings :integer

result:
  parse-id :integer :key
  result-id :integer
  mrs :string

run:
  run-id :integer :key
'''


def _run_process(c):
    import os
    import shutil
    import tempfile
    from delphin import itsdb, tsdb
    from delphin.interface import Processor, Response

    class P(Processor):
        task = 'parse'

        def process_item(self, datum, keys=None):
            n = int(keys['i-id']) % 3
            return Response(NOTES=[], WARNINGS=[], ERRORS=[], input=datum, surface=None, keys=keys,
                            run={'run-id': 0}, readings=n,
                            results=[{'result-id': j, 'mrs': 'm%d' % j} for j in range(n)])
    d = tempfile.mkdtemp(prefix="verif_c10p_")
    try:
        with open(os.path.join(d, 'relations'), 'w') as f:
            f.write(REL)
        sch = tsdb.read_schema(d)
        tsdb.write(d, 'item', [(i, 's%d' % i) for i in range(c["n"])], sch['item'])
        if c["pre"]:
            tsdb.write(d, 'parse', [(9, 9, 9, 9)], sch['parse'], gzip=c["gz"])
            tsdb.write(d, 'result', [(9, 0, 'old')], sch['result'], gzip=c["gz"])
        ts = itsdb.TestSuite(d)
        if c.get("pending"):
            ts['item'].extend([(c["n"] + 3 + j, 'p%d' % j) for j in range(c["pending"])])
        # the inputs of the model are recorded on the way (run-time wrappers in this driver process only):
        # the rows _add_row appended, in order, and how often it committed
        prod, ncommits = [], [0]
        orig_add_row, orig_commit = itsdb._add_row, ts.commit

        def add_row(ts_, name, data, buffer_size):
            before = ncommits[0]
            orig_add_row(ts_, name, data, buffer_size)
            prod.append([name, list(ts_[name][-1].data), ncommits[0] > before])

        def commit():
            ncommits[0] += 1
            return orig_commit()
        affected = sorted(set(itsdb.FieldMapper(source=ts).affected_tables).intersection(ts.schema))
        itsdb._add_row, ts.commit = add_row, commit
        try:
            ts.process(P(), buffer_size=c["bs"], gzip=c["gz"])
        finally:
            itsdb._add_row = orig_add_row
            del ts.commit
        mem = {n: [list(r.data) for r in ts[n]] for n in ('parse', 'result', 'run', 'item')}
        intx = ts.in_transaction
        disk0 = {n: [list(r.data) for r in itsdb.TestSuite(d)[n]] for n in ('parse', 'result', 'run', 'item')}
        try:
            ts.commit()
            err = None
        except Exception as e:
            err = type(e).__name__
        disk = {n: [list(r.data) for r in itsdb.TestSuite(d)[n]] for n in ('parse', 'result', 'run', 'item')}
        return {"mem": mem, "intx": intx, "err": err, "disk": disk, "disk0": disk0, "prod": prod,
                "ncommits": ncommits[0], "affected": affected}
    finally:
        shutil.rmtree(d, ignore_errors=True)


def observe(c):
    if c["k"] == "process":
        return _run_process(c)
    return {"steps": _run_table(c)}


def _list_apply(lst, committed, o):
    """Python list semantics of one operation: returns (lst, committed, status)"""
    k = o["o"]
    lst = list(lst)
    try:
        if k == "extend":
            lst.extend(o["rows"])
        elif k == "setitem":
            lst[o["i"]] = o["row"]
        elif k == "setslice":
            lst[slice(*o["s"])] = o["rows"]
        elif k == "update":
            r = list(lst[o["i"]])
            r[o["k"]] = o["v"]
            lst[o["i"]] = r
        elif k == "clear":
            lst = []
        elif k == "commit":
            committed = list(lst)
        elif k in ("reload", "reopen"):
            lst = list(committed)
    except IndexError:
        return lst, committed, 1
    except ValueError:
        return lst, committed, 2
    return lst, committed, 0


def oracle(c):
    if c["k"] == "process":
        r = _run_process(c)
        ids = list(range(c["n"])) + [c["n"] + 3 + j for j in range(c.get("pending", 0))]
        want_parse = [[str(i), "0", str(i), str(i % 3)] for i in ids]
        want_result = [[str(i), str(j), "m%d" % j] for i in ids for j in range(i % 3)]
        want_item = [[str(i), "s%d" % i] for i in range(c["n"])] + \
            [[str(c["n"] + 3 + j), "p%d" % j] for j in range(c.get("pending", 0))]
        want = {"parse": want_parse, "result": want_result, "run": [["0"]], "item": want_item}
        for n in want:
            if r["mem"][n] != want[n]:
                return "after process table %s holds %r in memory, expected %r" % (n, r["mem"][n], want[n])
        if r["intx"]:
            return "in_transaction is true after process"
        if r["err"]:
            return "commit after process raised %s" % r["err"]
        for n in want:
            if r["disk0"][n] != want[n]:
                return "after process table %s holds %r on disk, expected %r" % (n, r["disk0"][n], want[n])
            if r["disk"][n] != want[n]:
                return "after process+commit table %s holds %r on disk, expected %r" % (n, r["disk"][n], want[n])
        return None
    steps = _run_table(c)
    lst = [list(r) for r in (c["stored"] or [])]
    committed = list(lst)
    for n, (o, s) in enumerate(zip([None] + c["ops"], steps)):
        if o is not None:
            lst, committed, st = _list_apply(lst, committed, o)
            if isinstance(s["st"], str):
                return "operation %d (%s) raised %s" % (n, o["o"], s["st"])
            if s["st"] != st:
                return "operation %d (%s): status %r, a list gives %r" % (n, o["o"], s["st"], st)
        if s["len"] != len(lst):
            return "after operation %d len is %d, the list has %d" % (n, s["len"], len(lst))
        if s["iter"] != lst:
            return "after operation %d iteration gives %r, the list is %r" % (n, s["iter"], lst)
        if s["select"] != [[r[1], r[0]] for r in lst]:
            return ("after operation %d select('i-input','i-id') gives %r, the list is %r"
                    % (n, s["select"], lst))
        for i, got in zip(IPROBES, s["items"]):
            try:
                want = lst[i]
            except IndexError:
                want = None
            if got != want:
                return "after operation %d table[%d] = %r, list gives %r" % (n, i, got, want)
        for sl, got in zip(SPROBES, s["slices"]):
            want = lst[slice(*sl)]
            if got != want:
                return "after operation %d table[%r] = %r, list gives %r" % (n, sl, got, want)
        if s["disk"] != committed:
            return "after operation %d the stored relation is %r, committed list is %r" % (n, s["disk"], committed)
        if o is not None and o["o"] in ("commit", "reload", "reopen") and s["intx"]:
            return "in_transaction is true after %s" % o["o"]
        if s["tx"] == s["gz"]:
            return "plain=%s compressed=%s after operation %d" % (s["tx"], s["gz"], n)
    return None


def known_match(case, failure, known):
    return None


# ------------------------------------------------------------------ Coq side

def _row(r):
    return clist(r, cstr)


def _slice(s):
    return "{| sl_start := %s; sl_stop := %s; sl_step := %s |}" % tuple(copt(x, cZ) for x in s)


def _op(o):
    k = o["o"]
    if k == "extend":
        return app("OExtend", clist(o["rows"], _row))
    if k == "setitem":
        return app("OSetItem", cZ(o["i"]), _row(o["row"]))
    if k == "setslice":
        return app("OSetSlice", _slice(o["s"]), clist(o["rows"], _row))
    if k == "update":
        return app("OUpdate", cZ(o["i"]), cnat(o["k"]), cstr(o["v"]))
    return {"clear": "OClear", "commit": "OCommit", "reload": "OReload", "reopen": "OReopen"}[k]


def _obs(s):
    if isinstance(s["st"], str) or s["disk"] is None:
        raise ValueError("unexpected exception")
    return ("{| b_status := %s; b_len := %s; b_iter := %s; b_items := %s; b_slices := %s; "
            "b_intx := %s; b_tx := %s; b_gz := %s; b_disk := %s |}"
            % (cN(s["st"]), cnat(s["len"]), clist(s["iter"], _row),
               clist(s["items"], lambda r: copt(r, _row)),
               clist(s["slices"], lambda l: copt(l, lambda x: clist(x, _row))),
               cbool(s["intx"]), cbool(s["tx"]), cbool(s["gz"]), clist(s["disk"], _row)))


def _rel(rows, gz):
    if rows is None:
        return "{| tx := None; gz := None; gz_newer := false |}"
    if gz and rows:
        return "{| tx := None; gz := Some %s; gz_newer := true |}" % clist(rows, _row)
    return "{| tx := Some %s; gz := None; gz_newer := false |}" % clist(rows, _row)


def _process_case(c, o):
    n = c["n"]
    inits = [("item", [[str(i), "s%d" % i] for i in range(n)], False,
              [[str(n + 3 + j), "p%d" % j] for j in range(c.get("pending", 0))]),
             ("parse", [["9", "9", "9", "9"]] if c["pre"] else None, c["gz"], []),
             ("result", [["9", "0", "old"]] if c["pre"] else None, c["gz"], []),
             ("run", None, False, [])]
    return app("CProcess",
               clist(inits, lambda x: "(%s, %s, %s)" % (cstr(x[0]), _rel(x[1], x[2]), clist(x[3], _row))),
               clist(o["affected"], cstr),
               clist(o["prod"], lambda x: "(%s, %s)" % (cstr(x[0]), _row(x[1]))),
               cZ(c["bs"]), cbool(c["gz"]),
               clist(["item", "parse", "result", "run"],
                     lambda name: "{| p_name := %s; p_mem := %s; p_disk := %s |}" % (
                         cstr(name), clist(o["mem"][name], _row), clist(o["disk0"][name], _row))),
               cbool(o["intx"]), cnat(o["ncommits"]))


def coq_case(c, o):
    if c["k"] == "process" and "exc" not in o:
        return _process_case(c, o)
    if c["k"] != "table" or "exc" in o:
        return None
    stored = c["stored"]
    if stored is None:
        init = "{| tx := None; gz := None; gz_newer := false |}"
    elif c["gz"] and stored:
        init = "{| tx := None; gz := Some %s; gz_newer := true |}" % clist(stored, _row)
    else:
        init = "{| tx := Some %s; gz := None; gz_newer := false |}" % clist(stored, _row)
    return app("CTable", init, clist(c["ops"], _op), clist(IPROBES, cZ), clist(SPROBES, _slice),
               clist(o["steps"], _obs))
