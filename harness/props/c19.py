"""C19 — ACE interaction keeps responses aligned with inputs across processor failures."""
import os
from harness.coqlit import cstr, cZ, copt, clist, app, cbool, cnat

ID = "C19"
COQ_TARGETS = ["Props/C19.vo", "Corr/C19.vo"]
TIE_A = []
CASE_TIMEOUT = 40
IMPL_TIMEOUT = 3000
SHARD = 40
RULE = ("sequences of 1-7 inputs mixing acceptable items (each with a unique text), blank parser inputs and texts "
        "without an MRS, sent to ACEParser, ACEGenerator or ACETransferer driving a scripted stand-in processor "
        "(harness/fake/fake_ace.py) in both output protocols (tsdb-stdout and default); for every request the "
        "stand-in answers, exits before answering, exits in the middle of the answer (cut at 10-95% or just "
        "before one of its last parentheses) or exits "
        "right after answering, immediately or after a delay, while the client pauses or not between "
        "interactions, so that exit detection races both ways. Compared: per interaction the input recorded, "
        "skipped or not, the lines returned by the line reader (captured by wrapping _result_lines in the "
        "driver), the run id; the number of runs and the status returned by close(); the input validators on "
        "every text over a small bracket alphabet up to length 5/6; the S-expression decoder on generated answer "
        "lines, random truncations of them and malformed lines. Non-trivial = at least one "
        "failure and 3 inputs; distinct = canonical JSON.")
EXHAUSTIVE = {"quick": False, "thorough": False}
EXPLANATION = ("Alignment is a theorem about the model of the line reader and the interaction loop for every sequence "
               "of inputs and processor events; operating-system behaviour (pipes, process exit, which of two racing "
               "outcomes happens) is not modelled: it enters as the event the stand-in's log shows for each request, "
               "and the real classes are run against the stand-in on every generated schedule.")
ASSUMPTIONS = [
    "each complete answer of the processor ends with exactly the terminator lines of its protocol and contains no "
    "earlier line matching them (the stand-in's answers are of this form; the theorem states it as wf_block)",
    "process creation, pipes, poll() and wait() behave as documented (not modelled); timing shows up only as the "
    "choice between 'served by a restarted processor' and 'written to an exiting processor and lost'",
    "the S-expression decoder of tsdb-stdout answers (util.SExpr.parse, ace._sexpr_data) is modelled for ASCII "
    "text without floats; a truncated line raising IndexError is the case the implementation catches itself",
]
TRUSTED = ["the stand-in processor harness/fake/fake_ace.py and its log",
           "the driver's wrapper around ACEProcess._result_lines (monkey-patched in the harness process only)"]
LEVEL_TEXT = ("Proof (Coq, no axioms) about the model of ACEProcess.interact: for every sequence of inputs and "
              "processor events there is exactly one response per input, in order, recording its own input; the "
              "lines of a response are exactly (a prefix of) what the processor wrote for that very request, never "
              "another's, as long as complete answers are well-formed blocks; nothing is left unread between "
              "interactions; unacceptable inputs are skipped without touching the processor; after an exit the next "
              "served request runs under a new run id; close() returns 0 or the exit status; decoding a printed "
              "tsdb-stdout answer line (nested lists, dotted pairs, integers, symbols, quoted strings with any "
              "characters) returns exactly the printed pairs, and decoding any truncation of a printed line "
              "never raises (C19_truncated_answer_never_raises; false of the code before the repair of F30). "
              "The model is tied to "
              "delphin/ace.py by kernel-checked correspondence against a scripted stand-in processor under both "
              "race outcomes; result extraction, absence of exceptions and hangs, and run bookkeeping are checked "
              "on the real classes by the oracle.")
LEVEL_NOTE = ("Partial: the operating system (pipes, exit detection) is not modelled. Two defects were repaired by "
              "fix: commits: F30 (AssertionError on an answer cut on a structural boundary) and one defect (no restart after a failure in the default protocol and in the "
              "generator) was repaired by a fix: commit.")
TECHNIQUE = "Coq proof (alignment invariant of the reader/interaction state machine) + kernel-checked correspondence against a scripted stand-in + oracle"
DESIGN_REF = "DESIGN.md section 6, C19"

FAKE = os.path.join(os.path.dirname(os.path.dirname(os.path.abspath(__file__))), "fake", "fake_ace.py")
BAD_PARSE = ["", "   ", "\t"]
BAD_MRS = ["no mrs here", "", "] [", "[ unclosed", "x ] y"]


def gen(rng, tier):
    cases = []
    n = 60 if tier == "quick" else 900
    for i in range(n):
        task = rng.choice(["parse", "parse", "generate", "transfer"])
        tsdb = rng.random() < 0.5 if task != "transfer" else False
        inputs, behaviours, pauses = [], [], []
        for j in range(rng.randrange(1, 8)):
            if rng.random() < 0.2:
                inputs.append(rng.choice(BAD_PARSE if task == "parse" else BAD_MRS))
            else:
                word = "w%d" % j
                if task == "parse":
                    inputs.append(rng.choice(["%s barks", " %s [ x ] ", "the \"%s\" (b) \\ c"]) % word)
                else:
                    inputs.append(rng.choice(["[ TOP: h0 RELS: < [ %s ] > ]", "pre [ %s [ y ] ] post", "[ %s ]  "]) % word)
            pauses.append(rng.choice([0, 0, 0.12]))
        for j in range(len(inputs) + 1):
            k = rng.random()
            if k < 0.55:
                behaviours.append({"b": "ok"})
            elif k < 0.7:
                behaviours.append({"b": "exit_before", "d": rng.choice([0, 0.2])})
            elif k < 0.85:
                if rng.random() < 0.35:
                    # a cut on a structural boundary of the answer (just before one of its last parentheses)
                    behaviours.append({"b": "exit_mid", "paren": rng.choice([1, 2, 2, 3, 4])})
                else:
                    behaviours.append({"b": "exit_mid", "cut": rng.choice([0.1, 0.3, 0.5, 0.7, 0.95])})
            else:
                behaviours.append({"b": "exit_after", "d": rng.choice([0, 0, 0.25])})
        cases.append({"k": "ace", "task": task, "tsdb": tsdb, "inputs": inputs, "behaviours": behaviours,
                      "pauses": pauses, "nresults": rng.choice([0, 1, 2]),
                      # in every third history the client is slow to start reading each answer, so that a
                      # processor that exits right after answering has exited before the first read
                      "rdelay": 0.1 if i % 3 == 0 else 0})
    for t in ("parse", "generate"):
        for d in BAD_PARSE + BAD_MRS + [" a ", "[ a ]", "x [ a [ b ] ] y [ c ]", "[ a ] tail", "head [ a ]", "[[ a ]]"]:
            cases.append({"k": "valid", "task": t, "datum": d})
    # every text over a small bracket alphabet up to length 5 (quick) / 6 (thorough): balanced,
    # unbalanced, nested, with text before, between and after the brackets
    import itertools
    maxlen = 5 if tier == "quick" else 6
    for n in range(0, maxlen + 1):
        for t in itertools.product("[]a ", repeat=n):
            cases.append({"k": "valid", "task": "generate", "datum": "".join(t)})
    for d in ["[ TOP: h0 RELS: < [ _rain_v_1 LBL: h1 ARG0: e2 ] >", "pre [ a [ b ] ] post ] x", "[ a ] [ b", "] [ a ]",
              "[[[ a ]]", "[ a ]]", "x [ a [ b ] c"]:
        for t in ("parse", "generate"):
            cases.append({"k": "valid", "task": t, "datum": d})
    cases.extend(_gen_sexpr(rng, tier))
    return cases


SX_SYMS = [":ninputs", ":p-input", ":readings", ":results", ":result-id", ":mrs", ":derivation", ":error",
           ":total", "x", "a-b", "-", "a\\ b", ":k\\)", "+1"]
SX_STRS = ["", "w1 barks", "[ TOP: h0 RELS: < [ \"x\" ] > ]", "(root (a \"b\" 3))", "back\\slash", ";", ".",
           "a\nb", "  padded  ", "{[(", "\\\"", "q"]


def _sx_text(rng, depth):
    """(text, always quoted?) of a random S-expression value as a processor might print it"""
    k = rng.random()
    if depth <= 0 or k < 0.45:
        j = rng.random()
        if j < 0.3:
            return str(rng.choice([0, 1, 7, 42, 100, -3, -15, 2024, 7]))
        if j < 0.65:
            return '"%s"' % rng.choice(SX_STRS).replace("\\", "\\\\").replace('"', '\\"')
        return rng.choice(SX_SYMS)
    if k < 0.65:
        return "(%s . %s)" % (_sx_text(rng, depth - 1), _sx_text(rng, depth - 1))
    return "(%s)" % " ".join(_sx_text(rng, depth - 1) for _ in range(rng.choice([0, 1, 2, 3, 3, 4])))


def _gen_sexpr(rng, tier):
    """answer lines of the tsdb-stdout protocol, every kind of truncation of them (an exiting
    processor), and malformed lines"""
    cases = []
    n = 40 if tier == "quick" else 600
    for i in range(n):
        pairs = ["(%s . %s)" % (rng.choice(SX_SYMS[:9]), _sx_text(rng, 3)) for _ in range(rng.randrange(1, 5))]
        sep = rng.choice([" ", " ", "  ", ""])
        line = sep.join(pairs)
        if rng.random() < 0.15:
            line = " " + line + " "
        # the no-exception oracle applies to lines a processor prints: strings quoted, symbols
        # without backslash escapes (an escaped symbol cut after its backslash is not decodable
        # and is outside the printed class of the theorem; it stays in the correspondence)
        import re as _re
        wfp = "\\" not in _re.sub(r'"(?:[^"\\]|\\.)*"', "", line)
        cases.append({"k": "sexpr", "line": line, "wf_prefix": wfp})
        for _ in range(3):
            cases.append({"k": "sexpr", "line": line[:rng.randrange(0, len(line) + 1)], "wf_prefix": wfp})
        # cuts on structural boundaries: right after a closing parenthesis
        ends = [j + 1 for j, ch in enumerate(line) if ch == ")"]
        for j in rng.sample(ends, min(3, len(ends))):
            cases.append({"k": "sexpr", "line": line[:j], "wf_prefix": wfp})
        if rng.random() < 0.3:
            j = rng.randrange(0, len(line) + 1)
            cases.append({"k": "sexpr", "line": line[:j] + rng.choice(["[", ";", "\\", "{", ")", "(", '"', " . "]) + line[j:]})
    for l in ["", " ", "x", "(a b c)", "((a) . 3)", "(a . 12", "(a . -)", "(a . 007)", "(1 . 2)", "(a . \".\")",
              "(a \".\" b)", "(a . (b . c . d))", "(a . b)(c . d)", "(a . b) x", "(a\t.\nb)", "(a . b\\\nc)",
              "(a . 1.5)", "(a . 1e3)", "(a . 3)"]:
        cases.append({"k": "sexpr", "line": l})
    return cases


def nontrivial(c):
    if c["k"] == "sexpr":
        return len(c["line"]) >= 10
    if c["k"] != "ace":
        return True
    return len(c["inputs"]) >= 3 and any(b["b"] != "ok" for b in c["behaviours"][:len(c["inputs"])])


# ------------------------------------------------------------------ implementation side

def _run(c):
    import json, tempfile, shutil, time, logging
    logging.disable(logging.CRITICAL)
    from delphin import ace
    top = tempfile.mkdtemp(prefix="c19_")
    captured = []
    orig = ace.ACEProcess._result_lines

    def wrapper(self, termini=None):
        if c.get("rdelay"):
            time.sleep(c["rdelay"])
        lines = orig(self, termini)
        captured.append(list(lines))
        return lines
    ace.ACEProcess._result_lines = wrapper
    try:
        plan = {"task": c["task"], "tsdb": c["tsdb"], "behaviours": c["behaviours"], "state": top + "/state",
                "log": top + "/log", "nresults": c["nresults"]}
        with open(plan["state"], "w") as f:
            f.write("0")
        with open(top + "/plan.json", "w") as f:
            json.dump(plan, f)
        env = dict(os.environ, FAKE_ACE_PLAN=top + "/plan.json")
        cls = {"parse": ace.ACEParser, "generate": ace.ACEGenerator, "transfer": ace.ACETransferer}[c["task"]]
        kw = {} if c["task"] == "transfer" else {"tsdbinfo": c["tsdb"]}
        devnull = open(os.devnull, "w")
        out = []
        p = cls("/dev/null", executable=FAKE, env=env, stderr=devnull, **kw)
        for s, pause in zip(c["inputs"], c["pauses"]):
            ncap = len(captured)
            try:
                r = p.interact(s)
            except Exception as e:
                out.append({"exc": "%s: %s" % (type(e).__name__, str(e)[:80])})
                continue
            res = []
            for x in r["results"]:
                res.append(x.get("mrs") or x.get("surface") or x.get("SENT") or "")
            out.append({"input": r.get("input"), "lines": captured[ncap] if len(captured) > ncap else None,
                        "results": res, "run": r["run"].get("run-id"), "surface": r.get("surface"),
                        "notes": list(r["NOTES"]), "nres": len(r["results"])})
            if pause:
                time.sleep(pause)
        try:
            rv = p.close()
        except Exception as e:
            rv = "exc %s" % type(e).__name__
        devnull.close()
        with open(plan["log"]) as f:
            log = [json.loads(l) for l in f]
        return {"out": out, "rv": rv, "runs": [ri.get("run-id") for ri in p.run_infos],
                "last_end": "end" in p.run_infos[-1], "log": log}
    finally:
        ace.ACEProcess._result_lines = orig
        shutil.rmtree(top, ignore_errors=True)


def _sx_json(v):
    if isinstance(v, bool):
        raise ValueError("bool")
    if isinstance(v, int):
        return {"i": v}
    if isinstance(v, float):
        return {"f": repr(v)}
    if isinstance(v, str):
        return {"s": v}
    if isinstance(v, tuple):
        return {"p": [_sx_json(v[0]), _sx_json(v[1])]}
    if isinstance(v, list):
        return {"l": [_sx_json(x) for x in v]}
    raise ValueError(type(v).__name__)


def _observe_sexpr(c):
    import logging
    logging.disable(logging.CRITICAL)
    from delphin import ace
    try:
        pairs = list(ace._sexpr_data(c["line"]))
    except Exception as e:            # anything but the IndexError the decoder itself catches
        return {"raised": type(e).__name__}
    return {"pairs": [[k, _sx_json(v)] for k, v in pairs]}


def observe(c):
    if c["k"] == "sexpr":
        return _observe_sexpr(c)
    if c["k"] == "valid":
        from delphin import ace
        if c["task"] == "parse":
            v = c["datum"].strip() if isinstance(c["datum"], str) else ""
            # through the class method without starting a process
            v = ace.ACEParser._validate_input(None, c["datum"]) or ""
        else:
            v = ace._possible_mrs(c["datum"])
        return {"sent": v}
    return _run(c)


def _answer(c, text):
    import importlib.util
    spec = importlib.util.spec_from_file_location("fake_ace", FAKE)
    m = importlib.util.module_from_spec(spec)
    spec.loader.exec_module(m)
    return m.answer({"task": c["task"], "tsdb": c["tsdb"], "nresults": c["nresults"]}, text)


RUN_NOTE = 'NOTE: tsdb run: (:application . "fake") (:platform . "p") (:grammar . "G") (:avms . 1)'


def events(c, o):
    """per accepted input: what the stand-in's log says happened to the request carrying that text"""
    from delphin import ace
    log = o["log"]
    reads = {}
    first_of_proc = set()
    fresh = False
    for ev in log:
        if ev[0] == "start":
            fresh = True
        elif ev[0] == "read":
            reads[ev[2]] = {"k": ev[1], "b": ev[3], "first": fresh}
            fresh = False
        elif ev[0] == "partial":
            for r in reads.values():
                if r["k"] == ev[1]:
                    r["cut"] = ev[2]
    evs = []
    for s in c["inputs"]:
        v = (s.strip() if c["task"] == "parse" else ace._possible_mrs(s))
        if not v:
            evs.append(None)
            continue
        sent = v.rstrip()
        r = reads.get(sent)
        if r is None:
            evs.append({"lost": True})
            continue
        full = _answer(c, sent + "\n")
        if r["b"] == "exit_before":
            text = ""
        elif r["b"] == "exit_mid":
            text = full[:r["cut"]]
        else:
            text = full
        lines = text.split("\n")
        if lines and lines[-1] == "":
            lines = lines[:-1]
        if r["first"]:
            lines = [RUN_NOTE] + lines
        evs.append({"lines": lines, "exits": r["b"] != "ok", "answered": r["b"] in ("ok", "exit_after"), "sent": sent})
    return evs


def oracle(c):
    if c["k"] == "sexpr" and c.get("wf_prefix"):
        # a truncated answer (the processor exited in the middle of it) must not make the decoder raise
        o = _observe_sexpr(c)
        if "raised" in o:
            return "decoding the truncated answer line %r raises %s" % (c["line"], o["raised"])
        return None
    if c["k"] != "ace":
        return None
    o = _run(c)
    evs = events(c, o)
    if len(o["out"]) != len(c["inputs"]):
        return "%d responses for %d inputs" % (len(o["out"]), len(c["inputs"]))
    last_failed_run = None
    for i, (s, r, ev) in enumerate(zip(c["inputs"], o["out"], evs)):
        if "exc" in r:
            return "interaction %d raised %s" % (i, r["exc"])
        if r["input"] != s:
            return "response %d records input %r instead of %r" % (i, r["input"], s)
        if ev is None:
            if r["lines"] is not None or r["nres"] != 0:
                return "unacceptable input %d was sent to the processor" % i
            if r["surface"] != s or not any("refused" in n for n in r["notes"]):
                return "unacceptable input %d is not reported as skipped" % i
            continue
        word = "w%d" % i
        own = [l.strip() for l in _answer(c, (ev.get("sent") or word) + "\n").split("\n")]
        for x in r["results"]:
            # a result is the processor's text for this very input, or a truncated piece of it
            if word not in x and not any(l.startswith(x) for l in own):
                return "response %d carries a result of another input: %r" % (i, x)
        if ev.get("lost"):
            if r["nres"] != 0:
                return "response %d has results although no processor read the request" % i
            last_failed_run = r["run"]
            continue
        if ev["answered"]:
            if r["nres"] != c["nresults"]:
                return "response %d has %d results, the processor produced %d" % (i, r["nres"], c["nresults"])
        elif r["nres"] > c["nresults"] + 1:
            # a truncated answer may leave one fragment (e.g. a cut header line) that is read as a result;
            # it is still text of this very answer (checked above)
            return "response %d has more results than the processor could have produced" % i
        if last_failed_run is not None and r["run"] <= last_failed_run:
            return "input %d after a failure was not served under a new run record" % i
        last_failed_run = r["run"] if ev["exits"] else None
    if not isinstance(o["rv"], int):
        return "close() did not return an exit status: %r" % (o["rv"],)
    if not o["last_end"]:
        return "close() did not record the end time of the run"
    if o["runs"] != list(range(len(o["runs"]))):
        return "run ids are not consecutive: %r" % (o["runs"],)
    return None


def known_match(case, failure, known):
    return None


# ------------------------------------------------------------------ Coq side

TASK = {"parse": "TParse", "generate": "TGenerate", "transfer": "TTransfer"}


def _has_float(j):
    if "f" in j:
        return True
    return any(_has_float(x) for x in j.get("p", []) + j.get("l", []))


def _c_sx(j):
    if "i" in j:
        return "(SInt %s)" % cZ(j["i"])
    if "s" in j:
        return "(SStr %s)" % cstr(j["s"])
    if "p" in j:
        return "(SPair %s %s)" % (_c_sx(j["p"][0]), _c_sx(j["p"][1]))
    return "(SList %s)" % clist(j["l"], _c_sx)


def coq_case(c, o):
    if "exc" in o:
        raise ValueError("harness")
    if c["k"] == "sexpr":
        if any(ord(ch) > 127 for ch in c["line"]):
            return None
        if "raised" in o:
            return app("CSexpr", cstr(c["line"]), "None")
        if any(_has_float(v) for _, v in o["pairs"]):
            return None               # floats are outside the model
        return app("CSexpr", cstr(c["line"]),
                   "(Some %s)" % clist(o["pairs"], lambda kv: "(%s, %s)" % (cstr(kv[0]), _c_sx(kv[1]))))
    if c["k"] == "valid":
        return app("CValid", TASK[c["task"]], cstr(c["datum"]), cstr(o["sent"]))
    evs = events(c, o)
    if any("exc" in r for r in o["out"]):
        return None
    items, resps = [], []
    for s, r, ev in zip(c["inputs"], o["out"], evs):
        if ev is None:
            e = "EvLost"
        elif ev.get("lost"):
            e = "EvLost"
        else:
            e = "(EvAnswer %s %s)" % (clist(ev["lines"], cstr), cbool(ev["exits"]))
        items.append("(%s, %s)" % (cstr(s), e))
        resps.append("{| r_input := %s; r_skipped := %s; r_lines := %s; r_run := %s |}" % (
            cstr(r["input"]), cbool(r["lines"] is None), clist(r["lines"] or [], cstr), cnat(r["run"])))
    rv = o["rv"] if isinstance(o["rv"], int) else -99
    return app("CAce", TASK[c["task"]], cbool(c["tsdb"]), "[%s]" % "; ".join(items), "3%Z",
               "[%s]" % "; ".join(resps), cnat(len(o["runs"])), cZ(rv))
