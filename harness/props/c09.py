"""C09 — relation files hold exactly what was last written, in one physical
form (delphin.tsdb write / open / write_database on real temp directories)."""
import itertools

from harness.coqlit import cstr, cZ, cN, copt, clist, app, cbool

ID = "C09"
COQ_TARGETS = ["Props/C09.vo", "Corr/C09.vo"]
TIE_A = []
RULE = ("(a) every history of length <=2 (quick) / <=3 (thorough) over the 12-operation alphabet "
        "{overwrite,append} x {plain,gzip} x {0,1,2 records} from six initial states (absent, plain, "
        "compressed, both with either mtime order, both with equal mtimes) on real temp directories, "
        "plus random histories of up to 6 writes with values containing '@', backslashes and newlines; "
        "(b) write_database runs over generated schema pairs (columns added/dropped/reordered, relations "
        "added/dropped), names subsets, gzip, in place and to a new or pre-populated directory. After "
        "every step the directory listing and the records read back are compared; (c) relations given by their "
        "lines (well formed, with empty columns, malformed escapes, ill-typed integers, too few or too many columns) "
        "read through Database raw, autocast and select_from raw and cast. Non-trivial = contains "
        "an append, a rejected request or a schema change; distinct = canonical JSON.")
EXHAUSTIVE = {"quick": True, "thorough": True}
EXPLANATION = ("Relation-level theorems hold for any line type, any initial files and any write sequence; "
               "the database-level theorem characterises every relation of the target directory after "
               "write_database. The exhaustive stream enumerates all short histories completely.")
ASSUMPTIONS = [
    "gzip round trip (gunzip(gzip(x)) = x) and st_mtime comparison are oracles: the model carries a "
    "boolean gz_newer for externally prepared directories that hold both files",
    "staging through a temporary file is modelled as atomic; crash points are outside the property",
    "the schema file text (relations) is not modelled; schemas are passed to the model as data",
]
TRUSTED = []
LEVEL_TEXT = ("Proof (Coq, no axioms): for any line type, initial file state and sequence of write requests "
              "the stored lines follow the abstract semantics (last overwrite followed by later appends; "
              "rejected requests change nothing), exactly one physical form exists after an accepted write "
              "(compressed iff requested and non-empty), the rejection condition is characterised exactly; "
              "write_database (new directory or in place, optional re-make under another schema) leaves in "
              "every written relation exactly the expected lines in one form, no file for unwritten "
              "relations of the target schema, everything else untouched; reading back the lines written from records "
              "through the raw, cast and column-selecting interfaces of Database gives the records, their casts and "
              "their projections (C09_read_written, C09_read_cast, C09_select_written). Tied to delphin/tsdb.py by "
              "kernel-checked correspondence on real directories incl. an exhaustive short-history stream.")
LEVEL_NOTE = ("Partial: gzip, file mtimes and temp-file staging are runtime oracles; the relations-file "
              "text round trip is not modelled. Lines are joined/split with the C08 model.")
TECHNIQUE = "Coq refinement proof (file states -> list of lines) + kernel-checked correspondence on real directories"
DESIGN_REF = "DESIGN.md section 6, C09"

FIELDS = [["i-id", ":integer"], ["i-input", ":string"]]
INITS = [
    {"tx": None, "gz": None, "gz_newer": False},
    {"tx": ["1@a"], "gz": None, "gz_newer": False},
    {"tx": None, "gz": ["1@a", "2@b"], "gz_newer": True},
    {"tx": ["1@a"], "gz": ["9@z"], "gz_newer": True},
    {"tx": ["1@a"], "gz": ["9@z"], "gz_newer": False},
    {"tx": [], "gz": None, "gz_newer": False},
]
RECSETS = [[], [[5, "e"]], [[6, "f@g"], [7, None], [8, "c\rr\r"]]]


def _alphabet():
    ops = []
    for append in (False, True):
        for gzip in (False, True):
            for recs in RECSETS:
                ops.append({"recs": recs, "append": append, "gzip": gzip})
    return ops


def _rand_val(rng):
    return rng.choice([None, "", "x", "a@b", "back\\slash", "two\nlines", "\\s", "é", "tab\there", "car\rriage", "cr\r"])


def _schema_variants(rng):
    base = {"item": [["i-id", ":integer"], ["i-input", ":string"], ["i-wf", ":integer"]],
            "parse": [["parse-id", ":integer"], ["i-id", ":integer"], ["readings", ":integer"]],
            "result": [["parse-id", ":integer"], ["mrs", ":string"]]}
    new = {}
    for name, fs in base.items():
        if rng.random() < 0.15:
            continue
        fs = [list(f) for f in fs]
        r = rng.random()
        if r < 0.25:
            fs.append(["extra", rng.choice([":string", ":integer"])])
        elif r < 0.45 and len(fs) > 1:
            fs.pop(rng.randrange(len(fs)))
        elif r < 0.6:
            rng.shuffle(fs)
        elif r < 0.7:
            fs.insert(0, ["i-comment", ":string"])
        new[name] = fs
    if rng.random() < 0.3:
        new["set"] = [["s-id", ":integer"], ["s-name", ":string"]]
    items = list(new.items())
    if rng.random() < 0.3:
        rng.shuffle(items)
    return base, [[k, v] for k, v in items]


def _rand_lines(rng, fields, n):
    lines = []
    for i in range(n):
        cols = []
        for f in fields:
            if f[1] == ":integer":
                cols.append(str(rng.randrange(0, 50)) if rng.random() < 0.9 else "")
            else:
                cols.append(rng.choice(["", "x", "it rains", "a\\sb", "q\\\\", "n\\nl", "é", "c\rr", "r\r"]))
        lines.append("@".join(cols))
    return lines


def gen(rng, tier):
    cases = []
    alpha = _alphabet()
    maxlen = 2 if tier == "quick" else 3
    for init in INITS:
        for n in range(1, maxlen + 1):
            for ops in itertools.product(alpha, repeat=n):
                cases.append({"k": "writes", "fields": FIELDS, "init": init, "ops": list(ops)})
    nrand = 150 if tier == "quick" else 2500
    for _ in range(nrand):
        ops = []
        for _ in range(rng.randrange(1, 7)):
            recs = [[rng.randrange(0, 99), _rand_val(rng)] for _ in range(rng.randrange(0, 4))]
            if rng.random() < 0.05:
                recs.append([1])
            ops.append({"recs": recs, "append": rng.random() < 0.5, "gzip": rng.random() < 0.35})
        init = rng.choice(INITS)
        if rng.random() < 0.2:
            init = {"tx": ["3@bad\\q"], "gz": None, "gz_newer": False}
        cases.append({"k": "writes", "fields": FIELDS, "init": init, "ops": ops})
    ndb = 150 if tier == "quick" else 2000
    for _ in range(ndb):
        base, new = _schema_variants(rng)
        src_schema = [[k, v] for k, v in base.items()]
        src = []
        for name, fs in src_schema:
            r = rng.random()
            lines = _rand_lines(rng, fs, rng.randrange(0, 4))
            if r < 0.15:
                continue
            if r < 0.4:
                src.append([name, {"tx": None, "gz": lines, "gz_newer": True}])
            else:
                src.append([name, {"tx": lines, "gz": None, "gz_newer": False}])
        inplace = rng.random() < 0.4
        use_new = rng.random() < 0.6
        sch = new if use_new else src_schema
        names = None
        if rng.random() < 0.4 and sch:
            names = [n for n, _ in sch if rng.random() < 0.6]
            if rng.random() < 0.1:
                names.append("nonexistent")
        dst = []
        if not inplace and rng.random() < 0.5:
            for name in ["item", "parse", "result", "set", "stale"]:
                if rng.random() < 0.5:
                    form = rng.choice(["tx", "gz"])
                    lines = ["7@old"]
                    dst.append([name, {"tx": lines if form == "tx" else None,
                                       "gz": lines if form == "gz" else None,
                                       "gz_newer": form == "gz"}])
        cases.append({"k": "wdb", "src_schema": src_schema, "src": src, "dst": dst, "inplace": inplace,
                      "names": names, "new_schema": new if use_new else None,
                      "gzip": rng.random() < 0.4})
    cases.extend(_gen_reads(tier))
    return cases


def nontrivial(c):
    if c["k"] == "reads":
        return len(c["lines"]) >= 2
    if c["k"] == "writes":
        return any(o["append"] for o in c["ops"]) or len(c["ops"]) > 1
    return c["new_schema"] is not None or c["inplace"]


# ------------------------------------------------------------------ implementation side

def _put(d, name, st):
    import gzip
    import os
    if st["tx"] is not None:
        with open(os.path.join(d, name), "w", encoding="utf-8", newline="\n") as f:
            f.write("".join(l + "\n" for l in st["tx"]))
        os.utime(os.path.join(d, name), (1000, 1000))
    if st["gz"] is not None:
        with gzip.open(os.path.join(d, name + ".gz"), "wt", encoding="utf-8", newline="\n") as f:
            f.write("".join(l + "\n" for l in st["gz"]))
        t = 2000 if st["gz_newer"] else 1000
        os.utime(os.path.join(d, name + ".gz"), (t, t))


def _fields(fs):
    from delphin import tsdb
    return [tsdb.Field(n, dt) for n, dt in fs]


def _schema(sch):
    return {name: _fields(fs) for name, fs in sch}


def _obsrel(d, name):
    import os
    from delphin import tsdb
    tx = os.path.isfile(os.path.join(d, name))
    gz = os.path.isfile(os.path.join(d, name + ".gz"))
    try:
        with tsdb.open(d, name) as fh:
            recs = [list(tsdb.split(line)) for line in fh]
    except tsdb.TSDBError:
        recs = None
    return {"tx": tx, "gz": gz, "recs": recs, "alt_bad": _alt_reads(d, name, recs)}


def _alt_reads(d, name, recs):
    """the same relation through the Database interfaces: raw records, autocast records and a
    column selection must all show the records the file holds"""
    import os
    import warnings
    from delphin import tsdb
    if recs is None or not os.path.isfile(os.path.join(d, "relations")):
        return None
    try:
        with warnings.catch_warnings():
            warnings.simplefilter("ignore")
            db = tsdb.Database(d)
            if name not in db.schema:
                return None
            fields = db.schema[name]
            if any(len(r) != len(fields) for r in recs):
                return None
            raw = [list(r) for r in db[name]]
            if raw != recs:
                return "Database[%r] yields %r, the file holds %r" % (name, raw, recs)
            try:
                want = [[tsdb.cast(f.datatype, v) for f, v in zip(fields, r)] for r in recs]
            except ValueError:
                return None          # ill-typed stored text: casting is outside the claim
            got = [list(r) for r in tsdb.Database(d, autocast=True)[name]]
            if got != want:
                return "autocast Database[%r] yields %r, expected %r" % (name, got, want)
            for k, f in enumerate(fields):
                col = [list(r) for r in db.select_from(name, [f.name])]
                if col != [[r[k]] for r in recs]:
                    return "select_from(%r, [%r]) yields %r" % (name, f.name, col)
                colc = [list(r) for r in db.select_from(name, [f.name], cast=True)]
                if colc != [[r[k]] for r in want]:
                    return "select_from(%r, [%r], cast=True) yields %r" % (name, f.name, colc)
    except tsdb.TSDBError as e:
        return "reading %r through Database raised %s" % (name, e)
    return None


def _run_writes(c):
    import os
    import shutil
    import tempfile
    from delphin import tsdb
    d = tempfile.mkdtemp(prefix="verif_c09_")
    try:
        fields = _fields(c["fields"])
        tsdb.write_schema(d, {"item": fields})
        _put(d, "item", c["init"])
        out = []
        for o in c["ops"]:
            try:
                tsdb.write(d, "item", [tuple(r) for r in o["recs"]], fields,
                           append=o["append"], gzip=o["gzip"])
                st = 0
            except NotImplementedError:
                st = 1
            except tsdb.TSDBError:
                st = 2
            except Exception as e:
                st = "exc:" + type(e).__name__
            ob = _obsrel(d, "item")
            ob["st"] = st
            ob["listing"] = sorted(os.listdir(d))
            out.append(ob)
        return out
    finally:
        shutil.rmtree(d, ignore_errors=True)


def _run_wdb(c):
    import os
    import shutil
    import tempfile
    from delphin import tsdb
    top = tempfile.mkdtemp(prefix="verif_c09_")
    try:
        src = os.path.join(top, "src")
        os.mkdir(src)
        tsdb.write_schema(src, _schema(c["src_schema"]))
        for name, st in c["src"]:
            _put(src, name, st)
        if c["inplace"]:
            dst = src
        else:
            dst = os.path.join(top, "dst")
            if c["dst"]:
                os.mkdir(dst)
                for name, st in c["dst"]:
                    _put(dst, name, st)
        db = tsdb.Database(src)
        try:
            tsdb.write_database(db, dst, names=c["names"],
                                schema=(_schema(c["new_schema"]) if c["new_schema"] is not None else None),
                                gzip=c["gzip"])
            ok = True
        except (tsdb.TSDBError, KeyError):
            ok = False
        names = _all_names(c)
        obs = [[n, _obsrel(dst, n) if os.path.isdir(dst) else {"tx": False, "gz": False, "recs": None}]
               for n in names]
        listing = sorted(os.listdir(dst)) if os.path.isdir(dst) else []
        return {"ok": ok, "obs": obs, "listing": listing}
    finally:
        shutil.rmtree(top, ignore_errors=True)


def _all_names(c):
    names = []
    for n, _ in c["src_schema"] + (c["new_schema"] or []) + c["src"] + c["dst"]:
        if n not in names:
            names.append(n)
    for n in (c["names"] or []):
        if n not in names:
            names.append(n)
    return names


def observe(c):
    if c["k"] == "reads":
        return _observe_reads(c)
    if c["k"] == "writes":
        return {"steps": _run_writes(c)}
    return _run_wdb(c)


def _norm_rec(rec):
    out = []
    for v in rec:
        if v is None or v == "":
            out.append(None)
        else:
            out.append(str(v))
    return out


def oracle(c):
    """The property stated directly on the implementation (value space: first
    column a non-None integer, second a string or None)."""
    if c["k"] == "reads":
        return None          # decided by the correspondence with the read model
    if c["k"] == "writes":
        steps = _run_writes(c)
        init = c["init"]
        use_gz = init["gz"] is not None and (init["tx"] is None or init["gz_newer"])
        cur_lines = (init["gz"] if use_gz else init["tx"])
        # expected content as parsed records; unreadable initial content is outside the claim
        from delphin import tsdb
        try:
            content = [list(tsdb.split(l)) for l in (cur_lines or [])]
        except tsdb.TSDBError:
            return None
        compressed = use_gz
        for o, s in zip(c["ops"], steps):
            if any(len(r) != len(c["fields"]) for r in o["recs"]):
                return None
            if isinstance(s["st"], str):
                return "write raised %s" % s["st"]
            recs = [_norm_rec(r) for r in o["recs"]]
            reject = o["append"] and (o["gzip"] or compressed)
            if reject:
                if s["st"] != 1:
                    return "appending to compressed data was not rejected"
            else:
                if s["st"] != 0:
                    return "an acceptable write was refused (status %r)" % s["st"]
                content = (content + recs) if o["append"] else recs
                compressed = o["gzip"] and bool(recs)
                if s["tx"] == s["gz"]:
                    return "after a write plain=%s and compressed=%s files exist" % (s["tx"], s["gz"])
                if s["gz"] != compressed:
                    return "compressed form %s but requested/non-empty is %s" % (s["gz"], compressed)
            if s.get("alt_bad"):
                return s["alt_bad"]
            if (s["recs"] is not None or content) and s["recs"] != content:
                if not (s["recs"] is None and not content and not s["tx"] and not s["gz"]):
                    return "stored records %r differ from the written history %r" % (s["recs"], content)
            extra = [f for f in s["listing"] if f not in ("relations", "item", "item.gz")]
            if extra:
                return "stray files left behind: %r" % extra
        return None
    # write_database
    r = _run_wdb(c)
    if not r["ok"]:
        return None
    sch = c["new_schema"] if c["new_schema"] is not None else c["src_schema"]
    sch_names = [n for n, _ in sch]
    names = c["names"] if c["names"] is not None else sch_names
    if len(set(names)) != len(names):
        return None
    src = dict((n, st) for n, st in c["src"])
    src_fields = dict((n, fs) for n, fs in c["src_schema"])
    new_fields = dict((n, fs) for n, fs in sch)
    obs = dict((n, o) for n, o in r["obs"])
    from delphin import tsdb
    for n in sch_names:
        o = obs[n]
        if n not in names:
            if o["tx"] or o["gz"]:
                return "relation %r of the target schema was not written but has a file" % n
            continue
        st = src.get(n)
        lines = []
        if st is not None and n in src_fields:
            lines = st["gz"] if (st["gz"] is not None and (st["tx"] is None or st["gz_newer"])) else st["tx"]
        recs = [list(tsdb.split(l)) for l in (lines or [])]
        want = []
        for rec in recs:
            if c["new_schema"] is not None and n in src_fields:
                colmap = dict(zip([f[0] for f in src_fields[n]], rec))
                rec = [colmap.get(f[0]) for f in new_fields[n]]
            row = []
            for v, f in zip(rec, new_fields[n]):
                if v is None:
                    d = tsdb.Field(f[0], f[1]).default
                    row.append(d if d != "" else None)
                else:
                    row.append(v)
            want.append(row)
        if o["recs"] != want:
            return "relation %r holds %r, expected %r" % (n, o["recs"], want)
        if o["tx"] == o["gz"]:
            return "relation %r: plain=%s compressed=%s" % (n, o["tx"], o["gz"])
        if o["gz"] != (c["gzip"] and bool(want)):
            return "relation %r: compressed=%s" % (n, o["gz"])
    return None


def known_match(case, failure, known):
    return None


# ------------------------------------------------------------------ Coq side
DT = {":integer": "TInt", ":string": "TStr", ":float": "TFloat", ":date": "TDate"}


R_FIELDS = [["i-id", ":integer"], ["i-input", ":string"], ["i-wf", ":integer"], ["i-comment", ":string"]]
R_VALS = {":integer": ["0", "7", "-1", "12", "", "x1", "+3", "007"],
          ":string": ["It rains.", "a\\sb", "q\\\\", "n\\nl", "", "x", "bad\\q", "end\\"]}


def _gen_reads(tier):
    """relations given by their lines (well-formed, with empty columns, with malformed escapes, with
    ill-typed integers, with too few or too many columns) and a column selection"""
    import random
    lrng = random.Random("c09-reads-" + tier)
    out = []
    for _ in range(120 if tier == "quick" else 1500):
        fields = lrng.sample(R_FIELDS, lrng.randrange(1, 5))
        lines = []
        for _ in range(lrng.randrange(0, 4)):
            cols = [lrng.choice(R_VALS[dt]) for _, dt in fields]
            r = lrng.random()
            if r < 0.06:
                cols = cols[:-1]
            elif r < 0.12:
                cols = cols + ["extra"]
            lines.append("@".join(cols))
        names = [n for n, _ in fields]
        cols = lrng.sample(names, lrng.randrange(1, len(names) + 1))
        if lrng.random() < 0.15:
            cols = cols + [lrng.choice(names)]          # a column selected twice
        if lrng.random() < 0.05:
            cols = cols + ["bogus"]
        out.append({"k": "reads", "fields": fields, "lines": lines, "cols": cols})
    return out


def _observe_reads(c):
    import os
    import shutil
    import tempfile
    import warnings
    from delphin import tsdb
    d = tempfile.mkdtemp(prefix="verif_c09r_")
    try:
        with open(os.path.join(d, "relations"), "w") as f:
            f.write("item:\n" + "\n".join("  %s %s" % (n, dt) for n, dt in c["fields"]) + "\n")
        with open(os.path.join(d, "item"), "w", encoding="utf-8", newline="\n") as f:
            f.write("".join(l + "\n" for l in c["lines"]))

        def attempt(fn):
            try:
                with warnings.catch_warnings():
                    warnings.simplefilter("ignore")
                    return {"v": [list(r) for r in fn()]}
            except (tsdb.TSDBError, ValueError, KeyError, IndexError) as e:
                return {"err": type(e).__name__}
        return {"raw": attempt(lambda: tsdb.Database(d)["item"]),
                "cast": attempt(lambda: tsdb.Database(d, autocast=True)["item"]),
                "sel": attempt(lambda: tsdb.Database(d).select_from("item", c["cols"])),
                "selc": attempt(lambda: tsdb.Database(d).select_from("item", c["cols"], cast=True))}
    finally:
        shutil.rmtree(d, ignore_errors=True)


def _reads_case(c, o):
    def opt(x, f):
        return "None" if "err" in x else "(Some %s)" % clist(x["v"], lambda r: clist(r, f))
    return app("CRead", _fs(c["fields"]), clist(c["lines"], cstr), clist(c["cols"], cstr),
               opt(o["raw"], lambda v: copt(v, cstr)), opt(o["cast"], _value),
               opt(o["sel"], lambda v: copt(v, cstr)), opt(o["selc"], _value))


def _fs(fs):
    return clist(fs, lambda f: "{| f_name := %s; f_type := %s |}" % (cstr(f[0]), DT[f[1]]))


def _rel(st):
    return "{| tx := %s; gz := %s; gz_newer := %s |}" % (
        copt(st["tx"], lambda l: clist(l, cstr)), copt(st["gz"], lambda l: clist(l, cstr)),
        cbool(st["gz_newer"]))


def _value(v):
    if v is None:
        return "VNone"
    if isinstance(v, int):
        return app("VInt", cZ(v))
    return app("VStr", cstr(v))


def _obsrel_c(o):
    return "{| o_tx := %s; o_gz := %s; o_recs := %s |}" % (
        cbool(o["tx"]), cbool(o["gz"]),
        copt(o["recs"], lambda rs: clist(rs, lambda r: clist(r, lambda v: copt(v, cstr)))))


def _files(fl):
    return clist(fl, lambda e: "(%s, %s)" % (cstr(e[0]), _rel(e[1])))


def _sch(s):
    return clist(s, lambda e: "(%s, %s)" % (cstr(e[0]), _fs(e[1])))


def coq_case(c, o):
    if "exc" in o:
        raise ValueError("harness")
    if c["k"] == "reads":
        return _reads_case(c, o)
    if c["k"] == "writes":
        ops = clist(c["ops"], lambda op: "(%s, %s, %s)" % (
            clist(op["recs"], lambda r: clist(r, _value)), cbool(op["append"]), cbool(op["gzip"])))
        steps = []
        for s in o["steps"]:
            if isinstance(s["st"], str):
                raise ValueError("unexpected exception")
            steps.append("(%s, %s)" % (cN(s["st"]), _obsrel_c(s)))
        return app("CWrites", _fs(c["fields"]), _rel(c["init"]), ops, "[" + "; ".join(steps) + "]")
    return app("CWdb", _sch(c["src_schema"]), _files(c["src"]), _files(c["dst"]), cbool(c["inplace"]),
               copt(c["names"], lambda l: clist(l, cstr)),
               copt(c["new_schema"], _sch), cbool(c["gzip"]), cbool(o["ok"]),
               clist(o["obs"], lambda e: "(%s, %s)" % (cstr(e[0]), _obsrel_c(e[1]))))
