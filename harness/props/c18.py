"""C18 — EDM scores (delphin.edm.compute) over lists of EDS / DMRS."""
from harness.coqlit import cstr, cZ, copt, clist, app, cbool

ID = "C18"
COQ_TARGETS = ["Props/C18.vo", "Corr/C18.vo"]
TIE_A = ["EdmGen"]
ALLOW_AXIOMS = ("of_uint63", "mul", "float", "eqb", "div", "add", "PrimInt63.sub",
                "PrimInt63.lsl", "PrimInt63.lor", "PrimInt63.int", "PrimInt63.land",
                "PrimInt63.lsr", "PrimInt63.add", "PrimInt63.eqb", "PrimInt63.ltb",
                "PrimInt63.leb", "PrimInt63.mul", "sub", "ltb", "leb", "opp", "abs")
RULE = ("paired lists (0-4 entries, unequal lengths, None entries) of EDS and DMRS with 0-4 nodes, "
        "spans from a 4-element set (repeated spans and predicates), properties, constants, "
        "edges/links incl. dangling targets and MOD/EQ links, optional top; unit, zero, dyadic and "
        "arbitrary float weights; both ignore flags. Non-trivial = at least one structure on each "
        "side and a score strictly between 0 and 1; distinct = canonical JSON.")
EXHAUSTIVE = {"quick": False, "thorough": False}
EXPLANATION = ("Theorems are over Q for all lists, weights and flags. The correspondence compares the "
               "three returned floats bit-for-bit with the model evaluated in binary64 (PrimFloat) "
               "from the same integer counts, so the counting (the combinatorial part) is tied exactly.")
ASSUMPTIONS = [
    "IEEE-754 rounding: the theorems are about exact rationals; the float results are tied to the "
    "same counts bit-exactly but the [0,1]/swap/identity clauses are not re-proved for rounded values",
    "node ids unique within a structure; DMRS integer ids are passed to the model as decimal strings",
    "link start nodes exist (DMRS.arguments() raises KeyError otherwise; outside the claim)",
]
TRUSTED = ["Coq primitive floats and 63-bit integers (PrimFloat, PrimInt63: kernel primitives listed by "
           "Print Assumptions for the Tie-A theorems) used for the binary64 evaluation",
           "Tie A translator harness/translate/edm_gen.py (_prf and the weighted totals of compute)"]
LEVEL_TEXT = ("Proof (Coq): the per-category 'both' count is the multiset intersection (every triple "
              "counted min(#gold,#test) times), both<=gold and both<=test through any accumulation, all "
              "three scores in [0,1] for non-negative weights, identical lists with a positive weighted "
              "total score (1,1,1), exchanging gold/test swaps P and R and keeps F, and node reordering "
              "changes no count — over Q for all inputs. _prf and the weighted sums are regenerated from "
              "edm.py (Tie A); compute() is compared bit-exactly with the model's binary64 evaluation.")
LEVEL_NOTE = ("Partial: IEEE rounding is outside the Q theorems (floats are tied bit-exactly to the same "
              "counts; invariance under injective renaming of node identifiers is a theorem for both). "
              "Primitive float/int operations appear in Print Assumptions of the Tie-A theorems.")
TECHNIQUE = "Coq proof over Q + regenerated arithmetic kernels + bit-exact PrimFloat correspondence"
DESIGN_REF = "DESIGN.md section 6, C18"

SPANS = [[0, 3], [4, 9], [0, 9], None]
PREDS = ["_dog_n_1", "_bark_v_1", "_the_q", "named", "udef_q"]
ROLES = ["ARG1", "ARG2", "BV", "MOD", "L-INDEX"]
PROPS = [["NUM", "sg"], ["NUM", "pl"], ["TENSE", "past"], ["PERS", "3"]]
WEIGHTS = [[1.0] * 5, [1.0, 1.0, 1.0, 1.0, 1.0], [1.0, 0.0, 0.0, 0.0, 0.0], [0.0, 1.0, 0.0, 0.0, 0.0],
           [0.0, 0.0, 1.0, 0.0, 0.0], [0.0, 0.0, 0.0, 1.0, 0.0], [0.0, 0.0, 0.0, 0.0, 1.0],
           [0.5, 2.0, 0.25, 1.0, 4.0], [0.1, 0.3, 0.7, 1.0, 0.0], [0.0] * 5, [1.0, 0.5, 0.0, 0.0, 1.0]]


def _gen_sr(rng):
    kind = rng.choice(["eds", "eds", "dmrs"])
    n = rng.choice([0, 1, 2, 2, 3, 3, 4])
    ids = (["e%d" % i for i in range(2, 2 + n)] if kind == "eds"
           else [10000 + i for i in range(n)])
    nodes = []
    for i in ids:
        props = []
        for p in rng.sample(PROPS, rng.randrange(0, 3)):
            if p[0] not in [q[0] for q in props]:
                props.append(p)
        edges = []
        if kind == "eds":
            for role in rng.sample(ROLES[:3] + ["ARG3"], rng.randrange(0, 3)):
                edges.append([role, rng.choice(ids + ["x99"])])
        nodes.append({"id": i, "span": rng.choice(SPANS), "pred": rng.choice(PREDS), "props": props,
                      "carg": rng.choice([None, None, "Kim", "", "Abrams"]), "edges": edges})
    links = []
    if kind == "dmrs" and ids:
        for _ in range(rng.randrange(0, 4)):
            links.append([rng.choice(ids), rng.choice(ids + [99999]), rng.choice(ROLES),
                          rng.choice(["EQ", "NEQ", "H", "HEQ"])])
    top = rng.choice(ids + [None, None] + (["zz"] if kind == "eds" else [77]))
    return {"kind": kind, "top": top, "nodes": nodes, "links": links}


def _mutate(rng, sr):
    import copy
    s = copy.deepcopy(sr)
    for _ in range(rng.randrange(0, 3)):
        if not s["nodes"]:
            break
        n = rng.choice(s["nodes"])
        r = rng.random()
        if r < 0.25:
            n["pred"] = rng.choice(PREDS)
        elif r < 0.5:
            n["span"] = rng.choice(SPANS)
        elif r < 0.65:
            n["props"] = n["props"][:-1]
        elif r < 0.8:
            n["carg"] = rng.choice([None, "Kim", "Sandy"])
        elif r < 0.9 and len(s["nodes"]) > 1:
            s["nodes"].remove(n)
            s["links"] = [l for l in s["links"] if l[0] != n["id"]]
        else:
            rng.shuffle(s["nodes"])
    return s


def gen(rng, tier):
    cases = []
    n = 1200 if tier == "quick" else 12000
    for _ in range(n):
        k = rng.randrange(0, 5)
        golds, tests = [], []
        for _ in range(k):
            g = _gen_sr(rng) if rng.random() < 0.85 else None
            r = rng.random()
            if g is not None and r < 0.55:
                t = _mutate(rng, g)
            elif r < 0.85:
                t = _gen_sr(rng)
            else:
                t = None
            golds.append(g)
            tests.append(t)
        if rng.random() < 0.2 and golds:
            (golds if rng.random() < 0.5 else tests).pop()
        if rng.random() < 0.1:
            tests = golds
        cases.append({"k": "compute", "golds": golds, "tests": tests, "w": rng.choice(WEIGHTS),
                      "ig": rng.random() < 0.3, "it": rng.random() < 0.3})
    return cases


def nontrivial(c):
    return any(g for g in c["golds"]) and any(t for t in c["tests"]) and c["golds"] != c["tests"] \
        and any(w > 0 for w in c["w"])


# ------------------------------------------------------------------ implementation side

def _build(s, rename=None, shuffle=None):
    from delphin.lnk import Lnk
    if s is None:
        return None
    rn = (lambda i: i) if rename is None else rename
    nodes = list(s["nodes"])
    if shuffle is not None:
        shuffle.shuffle(nodes)
    if s["kind"] == "eds":
        from delphin.eds import EDS, Node
        ns = [Node(rn(n["id"]), n["pred"], edges={r: rn(t) for r, t in n["edges"]},
                   properties=dict(n["props"]), carg=n["carg"],
                   lnk=(Lnk.charspan(*n["span"]) if n["span"] else None)) for n in nodes]
        return EDS(rn(s["top"]) if s["top"] is not None else None, ns)
    from delphin.dmrs import DMRS, Node, Link
    ns = [Node(rn(n["id"]), n["pred"], properties=dict(n["props"]), carg=n["carg"],
               lnk=(Lnk.charspan(*n["span"]) if n["span"] else None)) for n in nodes]
    ls = [Link(rn(a), rn(b), r, p) for a, b, r, p in s["links"]]
    return DMRS(rn(s["top"]) if s["top"] is not None else None, None, ns, ls)


def _compute(c, golds, tests, swap=False):
    from delphin import edm
    w = c["w"]
    ig, it = (c["it"], c["ig"]) if swap else (c["ig"], c["it"])
    return edm.compute(golds, tests, name_weight=w[0], argument_weight=w[1], property_weight=w[2],
                       constant_weight=w[3], top_weight=w[4],
                       ignore_missing_gold=ig, ignore_missing_test=it)


def observe(c):
    golds = [_build(s) for s in c["golds"]]
    tests = [_build(s) for s in c["tests"]]
    try:
        p, r, f = _compute(c, golds, tests)
    except Exception as e:
        return {"exc": type(e).__name__}
    return {"p": float(p).hex(), "r": float(r).hex(), "f": float(f).hex()}


def _triples(s):
    """independent triple extraction from the case description (not from delphin)"""
    from collections import Counter
    cats = {"n": Counter(), "a": Counter(), "p": Counter(), "c": Counter(), "t": Counter()}
    if s is None:
        return cats
    span = {}
    for n in s["nodes"]:
        span[n["id"]] = tuple(n["span"]) if n["span"] else (-1, -1)
    for n in s["nodes"]:
        sp = span[n["id"]]
        cats["n"][(sp, n["pred"])] += 1
        for k, v in n["props"]:
            cats["p"][(sp, k, v)] += 1
        if n["carg"]:
            cats["c"][(sp, n["carg"])] += 1
        if s["kind"] == "eds":
            for r, t in n["edges"]:
                if t in span:
                    cats["a"][(sp, r, span[t])] += 1
    if s["kind"] == "dmrs":
        for a, b, r, p in s["links"]:
            if r != "MOD" and b in span:
                cats["a"][(span[a], r, span[b])] += 1
    if s["top"] is not None and s["top"] in span:
        cats["t"][("top",)] += 1
    return cats


def oracle(c):
    from fractions import Fraction
    import itertools
    import random
    golds = [_build(s) for s in c["golds"]]
    tests = [_build(s) for s in c["tests"]]
    p, r, f = _compute(c, golds, tests)
    for name, v in (("precision", p), ("recall", r), ("fscore", f)):
        if not (0.0 <= v <= 1.0 + 1e-12):
            return "%s = %r outside [0,1]" % (name, v)
    # defining equation from independently extracted triples (exact)
    G = T = B = Fraction(0)
    w = [Fraction(x) for x in c["w"]]
    for gs, ts in itertools.zip_longest(c["golds"], c["tests"]):
        if gs is None and ts is None:
            continue
        if gs is None and c["ig"]:
            continue
        if ts is None and c["it"]:
            continue
        cg, ct = _triples(gs), _triples(ts)
        for wi, cat in zip(w, "napc"):
            G += wi * sum(cg[cat].values())
            T += wi * sum(ct[cat].values())
            B += wi * sum((cg[cat] & ct[cat]).values())
        gt, tt = sum(cg["t"].values()), sum(ct["t"].values())
        bt = 0
        if gt and tt:
            sg = [n for n in gs["nodes"] if n["id"] == gs["top"]][-1]["span"]
            st = [n for n in ts["nodes"] if n["id"] == ts["top"]][-1]["span"]
            bt = 1 if (sg or [-1, -1]) == (st or [-1, -1]) else 0
        G += w[4] * gt
        T += w[4] * tt
        B += w[4] * bt
    if G == 0 or T == 0 or B == 0:
        want = (0.0, 0.0, 0.0)
    else:
        pp, rr = B / T, B / G
        want = (float(pp), float(rr), float(2 * pp * rr / (pp + rr)))
    for name, v, wv in zip(("precision", "recall", "fscore"), (p, r, f), want):
        if abs(v - wv) > 1e-9:
            return "%s = %r but the weighted triple-overlap ratio is %r" % (name, v, wv)
    # swap
    p2, r2, f2 = _compute(c, tests, golds, swap=True)
    if (p2, r2) != (r, p) or abs(f2 - f) > 1e-12:
        return "exchanging gold and test gives %r, expected P/R swapped from %r" % ((p2, r2, f2), (p, r, f))
    # identical
    if any(g is not None for g in golds):
        p3, r3, f3 = _compute(c, golds, golds)
        tot = sum(wi * sum(sum(_triples(s)[cat].values()) for s in c["golds"] if s)
                  for wi, cat in zip(w, "napct"))
        if tot > 0 and (abs(p3 - 1) > 1e-12 or abs(r3 - 1) > 1e-12 or abs(f3 - 1) > 1e-12):
            return "identical lists score %r" % ((p3, r3, f3),)
    # renaming + reordering
    rng = random.Random(len(str(c)))

    def ren(i):
        if isinstance(i, int):
            return i + 12345
        return "q" + i
    g2 = [_build(s, ren, rng) for s in c["golds"]]
    t2 = [_build(s, ren, rng) for s in c["tests"]]
    if tuple(_compute(c, g2, t2)) != (p, r, f):
        return "renaming ids / reordering nodes changed the scores"
    return None


def known_match(case, failure, known):
    return None


# ------------------------------------------------------------------ Coq side

def _id(i):
    return cstr(str(i))


def _span(sp):
    sp = sp or [-1, -1]
    return "(%s, %s)" % (cZ(sp[0]), cZ(sp[1]))


def _node(n):
    return ("{| n_id := %s; n_span := %s; n_pred := %s; n_props := %s; n_carg := %s; n_edges := %s |}"
            % (_id(n["id"]), _span(n["span"]), cstr(n["pred"]),
               clist(n["props"], lambda p: "(%s, %s)" % (cstr(p[0]), cstr(p[1]))),
               copt(n["carg"], cstr),
               clist(n["edges"], lambda e: "(%s, %s)" % (cstr(e[0]), _id(e[1])))))


def _sr(s):
    if s is None:
        return "None"
    top = copt(s["top"], _id)
    if s["kind"] == "eds":
        return "(Some (SEds %s %s))" % (top, clist(s["nodes"], _node))
    links = clist(s["links"], lambda l: "{| l_start := %s; l_end := %s; l_role := %s |}"
                  % (_id(l[0]), _id(l[1]), cstr(l[2])))
    return "(Some (SDmrs %s %s %s))" % (top, clist(s["nodes"], _node), links)


def _fl(x):
    h = float(x).hex() if not isinstance(x, str) else x
    if h.startswith("-"):
        return "(-%s)%%float" % h[1:]
    return "(%s)%%float" % h


def coq_case(c, o):
    if "exc" in o:
        raise ValueError("exception")
    w = c["w"]
    ws = ("{| w_name := %s; w_arg := %s; w_prop := %s; w_const := %s; w_top := %s |}"
          % tuple(_fl(x) for x in w))
    return app("CCompute", clist(c["golds"], _sr), clist(c["tests"], _sr), ws,
               cbool(c["ig"]), cbool(c["it"]), _fl(o["p"]), _fl(o["r"]), _fl(o["f"]))
