"""Shared MRS generators, builders and Coq printers (C04-C07, codecs)."""
from harness.coqlit import cstr, cZ, copt, clist, app, cbool, cnat

NOUNS = ["_dog_n_1", "_cat_n_1", "_chef_n_1", "named", "_soup_n_1"]
VERBS = ["_bark_v_1", "_chase_v_1", "_sleep_v_1", "_give_v_1", "_think_v_1"]
ADJS = ["_old_a_1", "_new_a_1", "_big_a_1"]
ADVS = ["_very_x_deg", "_quick_a_1"]
QUANTS = ["_the_q", "_a_q", "udef_q", "proper_q", "_every_q"]
SCOPAL = ["neg", "_probable_a_1", "_believe_v_1"]
XPROPS = [["PERS", "3"], ["NUM", "sg"], ["NUM", "pl"], ["IND", "+"]]
EPROPS = [["TENSE", "past"], ["TENSE", "pres"], ["TENSE", "untensed"], ["MOOD", "indicative"],
          ["SF", "prop"], ["PERF", "-"]]


class VarGen:
    def __init__(self, rng, start=0, shuffle=False):
        self.n = start
        self.rng = rng
        self.shuffle = shuffle
        self.used = set()

    def new(self, sort):
        if self.shuffle:
            while True:
                k = self.rng.randrange(0, 60)
                if k not in self.used:
                    break
        else:
            k = self.n
            self.n += 1
        self.used.add(k)
        return "%s%d" % (sort, k)


def gen_wf_mrs(rng, max_nouns=2, shuffle_vars=False, shuffle_rels=False):
    """A connected, scope-plausible MRS with the intrinsic-variable property."""
    vg = VarGen(rng, shuffle=shuffle_vars)
    top = vg.new("h")
    rels, hcons, vars_ = [], [], {}
    nouns = []
    qlabels = {}
    for _ in range(rng.randrange(0, max_nouns + 1)):
        x = vg.new("x")
        lbl = vg.new("h")
        pred = rng.choice(NOUNS)
        args = [["ARG0", x]]
        if pred == "named":
            args.append(["CARG", rng.choice(["Kim", "Abrams", "Sandy"])])
        rels.append({"pred": pred, "label": lbl, "args": args})
        vars_[x] = rng.sample(XPROPS, rng.randrange(0, 3))
        # dedupe property names
        seen = set()
        vars_[x] = [p for p in vars_[x] if not (p[0] in seen or seen.add(p[0]))]
        nouns.append((x, lbl))
        # adjectives modifying the noun share its label
        for _ in range(rng.choice([0, 0, 1, 2])):
            e = vg.new("e")
            rels.append({"pred": rng.choice(ADJS), "label": lbl, "args": [["ARG0", e], ["ARG1", x]]})
            vars_[e] = rng.sample(EPROPS, rng.randrange(0, 2))
            if rng.random() < 0.3:
                e2 = vg.new("e")
                rels.append({"pred": rng.choice(ADVS), "label": lbl, "args": [["ARG0", e2], ["ARG1", e]]})
        # quantifier
        if rng.random() < 0.9:
            ql = vg.new("h")
            hole = vg.new("h")
            body = vg.new("h")
            if rng.random() < 0.1:
                # the restriction is the noun's label itself (no handle constraint)
                rels.append({"pred": rng.choice(QUANTS), "label": ql,
                             "args": [["ARG0", x], ["RSTR", lbl], ["BODY", body]]})
            else:
                rels.append({"pred": rng.choice(QUANTS), "label": ql,
                             "args": [["ARG0", x], ["RSTR", hole], ["BODY", body]]})
                hcons.append([hole, "qeq", lbl])
            qlabels[x] = ql
            # degree modifier of the quantifier ("nearly every"): shares its label, ARG1 unbound
            if rng.random() < 0.15:
                e4 = vg.new("e")
                dm = {"pred": "_nearly_x_deg", "label": ql, "args": [["ARG0", e4], ["ARG1", vg.new("u")]]}
                if rng.random() < 0.5:
                    rels.insert(len(rels) - 1, dm)
                else:
                    rels.append(dm)
    # main verb
    e = vg.new("e")
    vlbl = vg.new("h")
    vargs = [["ARG0", e]]
    roles = ["ARG1", "ARG2", "ARG3"]
    for (x, _), role in zip(nouns, roles):
        vargs.append([role, x])
    if not nouns or rng.random() < 0.3:
        vargs.append([roles[len(nouns)] if len(nouns) < 3 else "ARG4", vg.new(rng.choice("iup"))])
    # control-like shape: the verb also takes the label of one of its own arguments through a hole,
    # so that argument's predication lies below the verb's own scopal argument
    ctrl = False
    if nouns and rng.random() < 0.12:
        hole = vg.new("h")
        role = roles[len(vargs) - 1] if len(vargs) - 1 < 3 else "ARG4"
        if role not in [a[0] for a in vargs]:
            vargs.append([role, hole])
            hcons.append([hole, "qeq", rng.choice(nouns)[1]])
            ctrl = True
    rels.append({"pred": rng.choice(VERBS), "label": vlbl, "args": vargs})
    vars_[e] = [["TENSE", rng.choice(["past", "pres"])]] + rng.sample(EPROPS[3:], rng.randrange(0, 2))
    cur_lbl, cur_e = vlbl, e
    # a focus-like modifier in a quantifier's scope that is connected to the quantifier through the
    # verb and the quantified noun (ARG2 = the verb's event, ARG1 unexpressed)
    vx = [a[1] for a in vargs if a[1] in qlabels]
    if vx and rng.random() < 0.12:
        ef = vg.new("e")
        rels.append({"pred": "_focus_x", "label": qlabels[rng.choice(vx)], "args": [["ARG0", ef], ["ARG2", e]]})
    # free modifiers in the verb's scope (ARG1 unexpressed) that share an argument which the verb
    # does not take: several representatives of one scope, some already connected to each other
    if rng.random() < 0.1:
        y = vg.new("x")
        ly = vg.new("h")
        rels.append({"pred": rng.choice(NOUNS[:3]), "label": ly, "args": [["ARG0", y]]})
        vars_[y] = [["NUM", "sg"]] if rng.random() < 0.5 else []
        ql, hole, body = vg.new("h"), vg.new("h"), vg.new("h")
        rels.append({"pred": rng.choice(QUANTS), "label": ql, "args": [["ARG0", y], ["RSTR", hole], ["BODY", body]]})
        hcons.append([hole, "qeq", ly])
        for _ in range(rng.choice([2, 2, 3])):
            ej = vg.new("e")
            rels.append({"pred": rng.choice(["_loud_a_1", "_happy_a_1", "_late_p"]), "label": vlbl,
                         "args": [["ARG0", ej], ["ARG2", y]]})
    # adverb on the verb
    if rng.random() < 0.3 or ctrl:
        e2 = vg.new("e")
        rels.append({"pred": rng.choice(ADVS), "label": vlbl, "args": [["ARG0", e2], ["ARG1", e]]})
    # scopal operators above the verb
    for _ in range(rng.choice([0, 0, 1, 2])):
        e3 = vg.new("e")
        l3 = vg.new("h")
        # a regular argument after the scopal one ("seem to x"): an expressed noun or an unexpressed one
        extra = []
        if rng.random() < 0.25:
            extra = [["ARG2", rng.choice(nouns)[0] if nouns and rng.random() < 0.7 else vg.new("i")]]
        if rng.random() < 0.6:
            hole = vg.new("h")
            rels.append({"pred": rng.choice(SCOPAL), "label": l3, "args": [["ARG0", e3], ["ARG1", hole]] + extra})
            hcons.append([hole, "qeq", cur_lbl])
        else:
            rels.append({"pred": rng.choice(SCOPAL), "label": l3,
                         "args": [["ARG0", e3], ["ARG1", cur_lbl]] + extra})
        vars_[e3] = [["TENSE", "untensed"]] if rng.random() < 0.5 else []
        cur_lbl, cur_e = l3, e3
    hcons.insert(rng.randrange(0, len(hcons) + 1), [top, "qeq", cur_lbl])
    if shuffle_rels:
        rng.shuffle(rels)
        rng.shuffle(hcons)
    icons = []
    return {"top": top, "index": cur_e if rng.random() < 0.8 else e, "rels": rels, "hcons": hcons,
            "icons": icons, "vars": [[k, v] for k, v in vars_.items()]}


def gen_any_mrs(rng):
    """An arbitrary (mostly ill-formed) MRS in which every EP has an ARG0."""
    handles = ["h%d" % i for i in range(0, 7)]
    ivs = ["e2", "x3", "x5", "e7", "i8", "x9"]
    rels = []
    for _ in range(rng.randrange(0, 6)):
        lbl = rng.choice(handles[:5])
        iv = rng.choice(ivs)
        args = [["ARG0", iv]]
        kind = rng.random()
        if kind < 0.25:
            args.append(["RSTR", rng.choice(handles)])
            if rng.random() < 0.7:
                args.append(["BODY", rng.choice(handles)])
        else:
            for role in ["ARG1", "ARG2"][:rng.randrange(0, 3)]:
                args.append([role, rng.choice(ivs + handles + [lbl])])
            if rng.random() < 0.15:
                args.append(["CARG", "Kim"])
        rels.append({"pred": rng.choice(NOUNS + VERBS + QUANTS), "label": lbl, "args": args})
    hcons = []
    for _ in range(rng.randrange(0, 4)):
        hcons.append([rng.choice(handles), rng.choice(["qeq", "qeq", "lheq", "outscopes"]),
                      rng.choice(handles)])
    top = rng.choice(handles + [None])
    vars_ = []
    for v in ivs:
        if rng.random() < 0.4:
            vars_.append([v, [["TENSE", rng.choice(["past", "untensed", "", "PRES"])]]
                          if v[0] == "e" else [["NUM", "sg"]]])
    return {"top": top, "index": rng.choice(ivs + [None]), "rels": rels, "hcons": hcons, "icons": [],
            "vars": vars_}


def build_mrs(d):
    from delphin import mrs
    rels = [mrs.EP(r["pred"], r["label"], args=dict((a, b) for a, b in r["args"]),
                   lnk=None) for r in d["rels"]]
    return mrs.MRS(d["top"], d["index"], rels,
                   hcons=[mrs.HCons(*h) for h in d["hcons"]],
                   icons=[mrs.ICons(*i) for i in d["icons"]],
                   variables=dict((k, dict((a, b) for a, b in v)) for k, v in d["vars"]))


def filled_vars(d):
    """the variables dict as _fill_variables leaves it (insertion order)"""
    out = [[k, list(v)] for k, v in d["vars"]]
    names = set(k for k, _ in out)

    def add(v):
        if v not in names:
            names.add(v)
            out.append([v, []])
    if d["top"] is not None:
        add(d["top"])
    if d["index"] is not None:
        add(d["index"])
    for r in d["rels"]:
        add(r["label"])
        for role, val in r["args"]:
            if role != "CARG":
                add(val)
    for hi, _, lo in d["hcons"]:
        add(lo)
        add(hi)
    for l, _, r_ in d["icons"]:
        add(l)
        add(r_)
    return out


def coq_ep(r):
    return "{| e_pred := %s; e_label := %s; e_args := %s |}" % (
        cstr(r["pred"]), cstr(r["label"]),
        clist(r["args"], lambda a: "(%s, %s)" % (cstr(a[0]), cstr(a[1]))))


def coq_c3(c):
    return "(%s, %s, %s)" % (cstr(c[0]), cstr(c[1]), cstr(c[2]))


def coq_mrs(d):
    return ("{| m_top := %s; m_index := %s; m_rels := %s; m_hcons := %s; m_icons := %s; m_vars := %s |}"
            % (copt(d["top"], cstr), copt(d["index"], cstr), clist(d["rels"], coq_ep),
               clist(d["hcons"], coq_c3), clist(d["icons"], coq_c3),
               clist(filled_vars(d), lambda kv: "(%s, %s)" % (
                   cstr(kv[0]), clist(kv[1], lambda p: "(%s, %s)" % (cstr(p[0]), cstr(p[1])))))))
