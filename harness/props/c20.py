"""C20 — commands.convert: one correct entry per item in a valid target document."""
import os
from harness.coqlit import cstr, cZ, copt, clist, app, cbool, cnat
from harness.props import c01, c02, c03, mrs_common as mc

ID = "C20"
COQ_TARGETS = ["Props/C20.vo", "Corr/C20.vo"]
TIE_A = []
CASE_TIMEOUT = 30
SHARD = 40
RULE = ("lists of 0-4 MRS, DMRS or EDS items (C01-C03 generators restricted to what every format of the "
        "representation carries; well-formed MRSs for cross-representation targets) x every source/target codec pair "
        "the command supports within and across representations (simplemrs, mrx, mrsjson, simpledmrs, dmrx, "
        "dmrsjson, dmrspenman, eds, edsjson, edspenman; export-only mrsprolog and dmrstikz) x '-lines' on source "
        "and/or target x indent None/2 x properties/lnk flags x predicate_modifiers x input as path, open file or "
        "test-suite directory with a selection query. Compared: the document text against the model's assembly of "
        "the per-item encodings. The oracle reads the text back with the target codec. Non-trivial = at least 2 "
        "items; distinct = canonical JSON.")
EXHAUSTIVE = {"quick": False, "thorough": False}
EXPLANATION = ("The assembly (header, joiner, footer, indent adjustments, '-lines') and the per-item error isolation "
               "are modelled and proved; codecs and converters are the objects of C01-C05 and enter as oracles. That "
               "the assembled text is a valid document of N items for each codec is decided on the implementation by "
               "reading it back.")
ASSUMPTIONS = [
    "target_codec.encode and the converters are oracles (Section variables in the proofs; the per-item encodings "
    "are taken from the implementation in the correspondence)",
    "SEM-I dependent conversion (indexedmrs) and colour highlighting are not exercised",
]
TRUSTED = ["codec HEADER/JOINER/FOOTER constants are read from the codec modules at run time by the harness"]
LEVEL_TEXT = ("Proof (Coq, no axioms) about the model of the document assembly in commands.convert: with every item "
              "convertible there is exactly one part per item, in order, each being the item's own encoding; a "
              "failing item removes its own part and nothing else; in the '-lines' variant the lines of the output "
              "are exactly the parts; empty, singleton and longer lists are header + parts joined + footer. The "
              "assembly incl. the indent adjustments is tied to the code by kernel-checked correspondence; that each "
              "codec reads the assembled text back as exactly N structures equal to the items' own encodings, and "
              "transcoding round trips, are checked on the implementation by the oracle.")
LEVEL_NOTE = ("Partial: validity of the assembled text for the JSON/XML/PENMAN grammars is oracle-checked (no grammar "
              "of those formats is modelled).")
TECHNIQUE = "Coq proof (assembly and error-isolation lemmas) + kernel-checked correspondence + read-back oracle"
DESIGN_REF = "DESIGN.md section 6, C20"

MRS_FMTS = ["simplemrs", "mrx", "mrsjson"]
DMRS_FMTS = ["simpledmrs", "dmrx", "dmrsjson", "dmrspenman"]
EDS_FMTS = ["eds", "edsjson", "edspenman"]
EXPORT = {"mrs": ["mrsprolog"], "dmrs": ["dmrstikz"], "eds": []}
REP_FMTS = {"mrs": MRS_FMTS, "dmrs": DMRS_FMTS, "eds": EDS_FMTS}
LINES_OK = {"simplemrs", "mrsjson", "simpledmrs", "dmrsjson", "dmrspenman", "eds", "edsjson", "edspenman", "mrx", "dmrx"}


def _plain_mrs(rng):
    m = mc.gen_wf_mrs(rng, max_nouns=2)
    m = c01.decorate(rng, m, charonly=True)
    # keep to what MRX, JSON and SimpleMRS all carry
    for r in m["rels"]:
        r["surface"] = None
        if r["pred"] in c01.ODD_PREDS:
            r["pred"] = "_dog_n_1"
        r["args"] = [a for a in r["args"] if a[0] in ("ARG0", "ARG1", "ARG2", "ARG3", "RSTR", "BODY", "CARG")]
        for a in r["args"]:
            if a[0] == "CARG":
                a[1] = "Kim"
    m["icons"] = []
    m["lnk"] = None
    m["surface"] = None
    if m["top"] is None:
        m["top"] = "h0"
    # properties only on variables every format mentions (index and arguments)
    mentioned = set([m["index"]] + [a[1] for r in m["rels"] for a in r["args"] if a[0] != "CARG"])
    m["vars"] = [[v, ps] for v, ps in m["vars"] if v in mentioned and v[0] != "h"]
    return m


def gen_item(rng, rep, cross):
    if rep == "mrs":
        if cross:
            return _wf(rng)
        return _plain_mrs(rng)
    if rep == "dmrs":
        d = c02.gen_dmrs(rng, charonly=True, connected=True)
        for n in d["nodes"]:
            n["surface"] = None
            if n["type"] is None and n["props"]:
                n["type"] = "x"
            if n["carg"] is not None:
                n["carg"] = "Kim"
        d["links"] = [l for l in d["links"] if l[2] is not None]
        d["lnk"] = None
        d["surface"] = None
        d["identifier"] = None
        d["index"] = None
        return d
    e = c03.gen_eds(rng, charonly=True, connected=True)
    for n in e["nodes"]:
        if n["type"] is None and n["props"]:
            n["type"] = "x"
        if n["pred"] == "e2":
            n["pred"] = "_e_n_1"
        if n["carg"] is not None:
            n["carg"] = "Kim"
    e["identifier"] = None
    return e


def _wf(rng):
    m = mc.gen_wf_mrs(rng, max_nouns=2)
    m = dict(m)
    m["rels"] = [dict(r, lnk=["char", i, i + 3], surface=None) for i, r in enumerate(m["rels"])]
    m["lnk"] = None
    m["surface"] = None
    return m


def gen(rng, tier):
    cases = []
    n = 220 if tier == "quick" else 8000
    for i in range(n):
        k = rng.random()
        if k < 0.55:
            rep = rng.choice(["mrs", "dmrs", "eds"])
            src = rng.choice(REP_FMTS[rep])
            tgt = rng.choice(REP_FMTS[rep] + EXPORT[rep])
            trep = rep
            cross = False
        else:
            rep, trep = rng.choice([("mrs", "dmrs"), ("mrs", "eds"), ("dmrs", "mrs")])
            src = rng.choice(REP_FMTS[rep])
            tgt = rng.choice(REP_FMTS[trep])
            cross = True
        nitems = rng.choice([0, 1, 1, 2, 2, 3, 4])
        if rep == "dmrs" and cross:
            # DMRS items that come from well-formed MRSs
            items = [{"from_mrs": _wf(rng)} for _ in range(nitems)]
        else:
            items = [gen_item(rng, rep, cross) for _ in range(nitems)]
        inp = rng.choice(["path", "stream", "profile"]) if (rep == "mrs" and src == "simplemrs") else \
            rng.choice(["path", "stream"])
        src_lines = rng.random() < 0.3 and src in LINES_OK and src not in ("mrx", "dmrx") and inp != "profile"
        tgt_lines = rng.random() < 0.3
        select = None
        if inp == "profile" and rng.random() < 0.6:
            select = rng.choice(["result.mrs where result-id = 0", "mrs where result-id < 1",
                                 "mrs from result where result-id = 0", "result.mrs where not result-id = 1"])
        cases.append({"k": "conv", "rep": rep, "trep": trep, "src": src, "tgt": tgt, "items": items, "select": select,
                      "input": inp, "src_lines": src_lines, "tgt_lines": tgt_lines,
                      "indent": rng.choice([None, None, 2, 4]), "p": rng.random() < 0.8, "l": rng.random() < 0.8,
                      "pm": rng.random() < 0.5})
    # systematically: every combination of the properties and lnk flags for every target format of a
    # representation, on items that carry a constant and properties (choices drawn from a generator of
    # their own, so that the cases above do not depend on them)
    import random
    lrng = random.Random("c20-flags-" + tier)
    for rep in ("mrs", "dmrs", "eds"):
        for tgt in REP_FMTS[rep] + EXPORT[rep]:
            for p in (True, False):
                for l in (True, False):
                    items = [_item_with_constant(lrng, rep) for _ in range(2)]
                    cases.append({"k": "conv", "rep": rep, "trep": rep, "src": lrng.choice(REP_FMTS[rep]), "tgt": tgt,
                                  "items": items, "select": None, "input": "path", "src_lines": False,
                                  "tgt_lines": lrng.random() < 0.3, "indent": lrng.choice([None, 2]),
                                  "p": p, "l": l, "pm": False})
    return cases


def _item_with_constant(rng, rep):
    for _ in range(40):
        d = gen_item(rng, rep, False)
        if rep == "mrs":
            if any(a[0] == "CARG" for r in d["rels"] for a in r["args"]):
                return d
        else:
            if d["nodes"] and not any(n["carg"] is not None for n in d["nodes"]):
                d["nodes"][0]["carg"] = "Kim"
            if d["nodes"]:
                return d
    return d


def nontrivial(c):
    return len(c["items"]) >= 2


# ------------------------------------------------------------------ implementation side

def build_item(rep, d):
    if "from_mrs" in d:
        from delphin import dmrs
        return dmrs.from_mrs(c01.build(d["from_mrs"]))
    if rep == "mrs":
        return c01.build(d)
    if rep == "dmrs":
        return c02.build(d)
    return c03.build(d)


def _codec(name):
    from delphin import util
    return util.import_codec(name)


def _write_source(c, top):
    """write the items with the source codec; returns the path argument for convert (path or directory)"""
    S = _codec(c["src"])
    xs = [build_item(c["rep"], d) for d in c["items"]]
    if c["input"] == "profile":
        from delphin import tsdb
        d = os.path.join(top, "ts")
        os.mkdir(d)
        schema = {"item": [tsdb.Field("i-id", ":integer", (":key",)), tsdb.Field("i-input", ":string")],
                  "parse": [tsdb.Field("parse-id", ":integer", (":key",)), tsdb.Field("i-id", ":integer", (":key",))],
                  "result": [tsdb.Field("parse-id", ":integer", (":key",)), tsdb.Field("result-id", ":integer"),
                             tsdb.Field("mrs", ":string")]}
        tsdb.initialize_database(d, schema)
        tsdb.write(d, "item", [(i, "s%d" % i) for i in range(len(xs))], schema["item"])
        tsdb.write(d, "parse", [(i, i) for i in range(len(xs))], schema["parse"])
        rows = []
        for i, x in enumerate(xs):
            rows.append((i, 0, S.encode(x)))
            if c.get("select"):
                # a second reading that the selection query has to leave out
                rows.append((i, 1, S.encode(xs[(i + 1) % len(xs)])))
        tsdb.write(d, "result", rows, schema["result"])
        return d, xs
    path = os.path.join(top, "in.txt")
    if c["src_lines"]:
        text = "".join(S.encode(x, indent=None) + "\n" for x in xs)
    else:
        text = S.dumps(xs, properties=True, lnk=True)
    with open(path, "w", encoding="utf-8") as f:
        f.write(text)
        if text and not text.endswith("\n"):
            f.write("\n")
    return path, xs


def _run(c):
    import tempfile, shutil, logging
    from delphin import commands
    logging.disable(logging.CRITICAL)
    top = tempfile.mkdtemp(prefix="c20_")
    try:
        path, xs = _write_source(c, top)
        src = c["src"] + ("-lines" if c["src_lines"] else "")
        tgt = c["tgt"] + ("-lines" if c["tgt_lines"] else "")
        kw = dict(properties=c["p"], lnk=c["l"], indent=c["indent"], predicate_modifiers=c["pm"])
        if c["input"] == "stream":
            with open(path, encoding="utf-8") as fh:
                out = commands.convert(fh, src, tgt, **kw)
        elif c.get("select"):
            out = commands.convert(path, src, tgt, select=c["select"], **kw)
        else:
            out = commands.convert(path, src, tgt, **kw)
        return out, xs
    finally:
        shutil.rmtree(top, ignore_errors=True)


def _own_parts(c):
    """each item converted and encoded on its own (through the source text, as the command sees it)"""
    S, T = _codec(c["src"]), _codec(c["tgt"])
    from delphin import commands
    conv = commands._get_converter(S, T, c["pm"])
    parts = []
    for d in c["items"]:
        x = S.decode(S.encode(build_item(c["rep"], d)))
        y = conv(x) if conv else x
        kw = dict(properties=c["p"], lnk=c["l"], indent=None if c["tgt_lines"] else c["indent"])
        if c["tgt"] == "eds":
            kw["show_status"] = False
        parts.append(T.encode(y, **kw))
    return parts


def observe(c):
    import warnings
    with warnings.catch_warnings():
        warnings.simplefilter("ignore")
        out, _ = _run(c)
        T = _codec(c["tgt"])
        return {"out": out, "parts": _own_parts(c),
                "header": getattr(T, "HEADER", ""), "joiner": getattr(T, "JOINER", " "),
                "footer": getattr(T, "FOOTER", "")}


def _nl(l):
    return None if l == ["char", -1, -1] else l


def _canon(rep, x):
    """a canonical comparison form of a structure"""
    if rep == "mrs":
        o = c01.mrs_obs(x)
        o["lnk"] = _nl(o["lnk"])
        for r in o["rels"]:
            r["lnk"] = _nl(r["lnk"])
            r["args"] = sorted(r["args"])
        o["vars"] = sorted([v, sorted(ps)] for v, ps in o["vars"])
        return o
    if rep == "dmrs":
        o = c02.dmrs_obs(x)
        o["lnk"] = _nl(o["lnk"])
        for n in o["nodes"]:
            n["lnk"] = _nl(n["lnk"])
            n["props"] = sorted(n["props"])
        return o
    o = c03.eds_obs(x)
    for n in o["nodes"]:
        n["lnk"] = _nl(n["lnk"])
        n["props"] = sorted(n["props"])
        n["edges"] = sorted(n["edges"])
    o["nodes"] = sorted(o["nodes"], key=lambda n: n["id"])
    return o


def _drop(o, rep, props, lnk):
    """remove from a canonical form what the properties/lnk flags are allowed to drop: alignments
    and surface strings without lnk; morphosemantic properties (and, for DMRS/EDS nodes, the
    variable type written with them) without properties.  Predicates, constants, arguments,
    links/edges, constraints, top and index stay."""
    parts = o.get("rels") if rep == "mrs" else o.get("nodes")
    if not lnk:
        for k in ("lnk", "surface"):
            if k in o:
                o[k] = None
        for x in parts:
            for k in ("lnk", "surface", "base"):
                if k in x:
                    x[k] = None
    if not props:
        if rep == "mrs":
            o["vars"] = []
        else:
            for x in parts:
                x["props"] = []
                if "type" in x:
                    x["type"] = None
    return o


def _diff(a, b):
    for k in a:
        if a[k] != b[k]:
            if isinstance(a[k], list) and isinstance(b[k], list) and len(a[k]) == len(b[k]):
                for x, y in zip(a[k], b[k]):
                    if x != y:
                        return "%s: %r vs %r" % (k, x, y)
            return "%s: %r vs %r" % (k, a[k], b[k])
    return "?"


def oracle(c):
    import warnings
    with warnings.catch_warnings():
        warnings.simplefilter("ignore")
        out, xs = _run(c)
        T = _codec(c["tgt"])
        parts = _own_parts(c)
        n = len(c["items"])
        if c["tgt"] in ("mrsprolog", "dmrstikz"):
            marker = "psoa(" if c["tgt"] == "mrsprolog" else "\\begin{dependency}"
            if out.count(marker) != n:
                return "%d blocks for %d items in the %s export" % (out.count(marker), n, c["tgt"])
            return None
        # read the document back
        try:
            if c["tgt_lines"]:
                lines = out.split("\n") if out else []
                back = [T.decode(l) for l in lines]
            else:
                back = list(T.loads(out))
        except Exception as e:
            return "the %s document of %d items cannot be read back by its codec (%s: %s)" % (
                c["tgt"] + ("-lines" if c["tgt_lines"] else ""), n, type(e).__name__, str(e)[:80])
        if len(back) != n:
            return "the %s document of %d items reads back as %d structures" % (c["tgt"], n, len(back))
        for i, (b, ptxt) in enumerate(zip(back, parts)):
            own = T.decode(ptxt)
            if _canon(c["trep"], b) != _canon(c["trep"], own):
                return "item %d of the document differs from the item converted on its own: %s" % (
                    i, _diff(_canon(c["trep"], b), _canon(c["trep"], own)))
        # transcoding within one representation and back gives the original structures
        # (up to what the properties/lnk flags drop; constants, arguments, links stay)
        if c["rep"] == c["trep"] and c["tgt"] != "dmrspenman" and c["tgt"] != "edspenman" \
                and c["src"] not in ("dmrspenman", "edspenman"):
            S = _codec(c["src"])
            for b, d in zip(back, c["items"]):
                orig = S.decode(S.encode(build_item(c["rep"], d)))
                cb = _drop(_canon(c["rep"], b), c["rep"], c["p"], c["l"])
                co = _drop(_canon(c["rep"], orig), c["rep"], c["p"], c["l"])
                if cb != co:
                    return "transcoding %s -> %s (properties=%s, lnk=%s) changes a structure: %s" % (
                        c["src"], c["tgt"], c["p"], c["l"], _diff(cb, co))
        return None


def known_match(case, failure, known):
    return None


def coq_case(c, o):
    if "exc" in o:
        raise ValueError("harness")
    return app("CAsm", cstr(o["header"]), cstr(o["joiner"]), cstr(o["footer"]),
               cbool(c["indent"] is not None), cbool(c["tgt_lines"]), clist(o["parts"], cstr), cstr(o["out"]))
