"""C01 — MRS codecs: SimpleMRS (modelled at token level), MRX, MRS-JSON, Indexed MRS (oracle)."""
from harness.coqlit import cstr, cZ, copt, clist, app, cbool, cnat
from harness.props import mrs_common as mc

ID = "C01"
COQ_TARGETS = ["Props/C01.vo", "Corr/C01.vo"]
TIE_A = []
CASE_TIMEOUT = 20
SHARD = 60
RULE = ("MRSs from the C04/C07 generators (well-formed and ill-formed) decorated with every Lnk kind, surface "
        "strings and constants over letters, blanks, quotes, backslashes, brackets, colons and non-ASCII "
        "characters, predicates that need quoting, extra roles, individual constraints, properties on any "
        "mentioned variable, optional top/index, structure-level lnk/surface; crossed with properties on/off, "
        "lnk on/off, indent False/True/0/2; documents of 0-3 items; hand-written SimpleMRS texts (LTOP, _rel, "
        "quoted symbols, any feature order); token streams with a token deleted, duplicated or replaced. "
        "Compared: the token sequence of the encoder's text under the real lexer, and the decoded structure "
        "or rejection. The oracle runs the round trip and the stability check on SimpleMRS, MRX, MRS-JSON and "
        "Indexed MRS. Non-trivial = at least 2 predications; distinct = canonical JSON.")
EXHAUSTIVE = {"quick": False, "thorough": False}
EXPLANATION = ("The SimpleMRS round trip is a theorem at the level of the lexer's token stream for all structures; "
               "the lexer's regular expressions and the white space between tokens are oracles checked through "
               "the implementation on every generated case. MRX, MRS-JSON and Indexed MRS are decided on the "
               "implementation by the oracle only.")
ASSUMPTIONS = [
    "predicates are in predicate.normalize normal form (lower case, no _rel suffix, no enclosing quotes)",
    "role and property names are upper case, property values, variables and constraint relations lower case, "
    "and none of them is shaped like a surface predicate or contains white space, brackets, ':' or '<'",
    "Lnk token lists are non-empty",
]
TRUSTED = ["SimpleMRSLexer regular expressions (not modelled; exercised through the real lexer on every case)",
           "harness mapping from lexer tokens (type, text) to the model's token type, Lnk(text) by the implementation"]
LEVEL_TEXT = ("Proof (Coq, no axioms) about the token-level model of delphin/codecs/simplemrs.py: decoding the "
              "token stream of the encoder returns the structure with arguments in role order, each variable's "
              "properties in priority order on first mention, and with properties/alignments removed exactly when "
              "suppressed; encoding the decoded structure again gives the same token stream; unescape inverts escape; for MRS-JSON, from_dict inverts to_dict at the level of the JSON "
              "value. Encoder and decoder models are tied to the code by "
              "kernel-checked correspondence on the real lexer's tokens; text-level round trip, stability under "
              "re-encoding, indentation, multi-item documents and the MRX, MRS-JSON and Indexed codecs are "
              "checked on the implementation by the oracle.")
LEVEL_NOTE = ("Partial: the lexer's regular expressions and white space are oracles; MRX and Indexed MRS are "
              "oracle-checked, not modelled; MRS-JSON is modelled at the level of the JSON value (json.dumps/loads "
              "are oracles).")
TECHNIQUE = "Coq proof (token-level decode-of-encode) + kernel-checked correspondence + round-trip oracle on all four codecs"
DESIGN_REF = "DESIGN.md section 6, C01"

STRS = ["Kim", "dog", "the dog", "a \"quoted\" word", "back\\slash", "it's", "x<y>", "[b]", "a:b", "été",
        "犬が吠える", "\\", "\"", "\\\"", "tab-free  two blanks", "q\\\\\"", "\U0001F600 ok", "#", "ends\\"]
ODD_PREDS = ["_dog_n_1", "_the_q", "udef_q", "_look_v_up-at", "compound", "_in+order+to_x", "_a b_n_1",
             "weird pred", "_犬_n_1", "p\"q", "_x<y_a_1", "poss", "_it's_n_1", "a[b]", "c:d", "_24/7_a_1", "-",
             "_vice+versa_a_1", "_\\_n_1", "_do_v_1<2", "_pre-_a_1", "named_n"]
EXTRA_ROLES = ["ARG3", "ARG4", "L-INDEX", "R-INDEX", "L-HNDL", "R-HNDL", "BODY", "X1", "ARG"]
ICONS_RELS = ["topic", "focus", "focus-or-topic", "info-str"]
PROPS = [["PERS", "3"], ["NUM", "sg"], ["GEND", "f"], ["IND", "+"], ["PT", "std"], ["SF", "prop-or-ques"],
         ["TENSE", "past"], ["MOOD", "indicative"], ["PROG", "-"], ["PERF", "+"], ["ZED", "a1"], ["COG-ST", "uniq+fam"],
         ["ABC", "x.y"]]


def _lnk(rng, charonly=False):
    k = rng.random()
    if k < 0.25:
        return None
    if k < 0.7 or charonly:
        a = rng.randrange(0, 40)
        return ["char", a, a + rng.randrange(0, 9)] if rng.random() < 0.9 else ["char", -1, -1]
    if k < 0.8:
        a = rng.randrange(0, 9)
        return ["chart", a, a + rng.randrange(0, 4)]
    if k < 0.9:
        return ["toks"] + [rng.randrange(0, 30) for _ in range(rng.randrange(1, 4))]
    return ["edge", rng.randrange(0, 500)]


def decorate(rng, m, charonly=False):
    """add alignments, surfaces, odd predicates, roles, icons and properties to a base MRS"""
    m = {"top": m["top"], "index": m["index"], "rels": [dict(r) for r in m["rels"]],
         "hcons": [list(h) for h in m["hcons"]], "icons": [list(i) for i in m["icons"]],
         "vars": [[k, [[p[0], p[1].lower()] for p in v if p[1]]] for k, v in m["vars"]]}
    mentioned = []
    for r in m["rels"]:
        r["args"] = [list(a) for a in r["args"]]
        r["lnk"] = _lnk(rng, charonly)
        r["surface"] = rng.choice(STRS) if rng.random() < 0.3 else None
        if rng.random() < 0.25:
            r["pred"] = rng.choice(ODD_PREDS)
        if rng.random() < 0.2:
            role = rng.choice(EXTRA_ROLES)
            if role not in [a[0] for a in r["args"]]:
                r["args"].insert(rng.randrange(0, len(r["args"]) + 1),
                                 [role, rng.choice(["x3", "e2", "h1", "i9", "u12", "p4"])])
        if rng.random() < 0.15 and "CARG" not in [a[0] for a in r["args"]]:
            r["args"].insert(rng.randrange(0, len(r["args"]) + 1), ["CARG", rng.choice(STRS)])
        else:
            for a in r["args"]:
                if a[0] == "CARG" and rng.random() < 0.7:
                    a[1] = rng.choice(STRS)
        if rng.random() < 0.3:
            rng.shuffle(r["args"])
        mentioned.extend(a[1] for a in r["args"] if a[0] != "CARG")
    if m["index"] is not None:
        mentioned.append(m["index"])
    if mentioned and rng.random() < 0.3:
        for _ in range(rng.randrange(1, 3)):
            m["icons"].append([rng.choice(mentioned), rng.choice(ICONS_RELS), rng.choice(mentioned)])
            if rng.random() < 0.2:
                m["icons"][-1][2] = "x77"
                mentioned.append("x77")
    have = dict((k, v) for k, v in m["vars"])
    for v in set(mentioned):
        if rng.random() < 0.25:
            ps = rng.sample(PROPS, rng.randrange(1, 5))
            have[v] = ps
    m["vars"] = [[k, have[k]] for k in sorted(have, key=lambda _: rng.random())]
    m["lnk"] = _lnk(rng, charonly) if rng.random() < 0.5 else None
    m["surface"] = rng.choice(STRS) if rng.random() < 0.4 else None
    if rng.random() < 0.08:
        m["top"] = None
    if rng.random() < 0.08:
        m["index"] = None
    return m


TEXTS = [
    '[ LTOP: h0 INDEX: e2 [ e SF: prop TENSE: pres ] RELS: < [ _rain_v_1_rel<0:6> LBL: h1 ARG0: e2 ] > '
    'HCONS: < h0 qeq h1 > ]',
    '[ RELS: < [ "_rain_v_1_rel" LBL: h1 ARG0: e2 ] > INDEX: e2 TOP: h0 ]',
    "[ TOP: h0 RELS: < [ 'abc<1:2> LBL: h1 ARG0: x2 [ x PERS: 3 ] ] [ named<@4> \"Kim\" LBL: h3 ARG0: x2 "
    "CARG: \"Ki\\\"m\" ] > ICONS: < x2 topic x2 [ x NUM: SG ] > ]",
    '[ <1 2 3> "a b" top: H0 index: E2 rels: < > hcons: < > ]',
    '[ TOP: h0 RELS: < [ _a_q LBL: h1 arg0: x2 RSTR: h3 BODY: h4 ] > HCONS: < h3 QEQ h5 h0 lheq h1 > ]',
    '[ TOP: h0 TOP: h1 INDEX: e2 INDEX: e3 RELS: < [ p LBL: h1 ARG0: e2 ARG0: e3 ] > RELS: < [ q LBL: h1 ] > ]',
    '[ TOP: h0 BOGUS: h1 ]',
    '[ TOP: h0 RELS: < [ p LBL: h1 ARG0: e2 ] ]',
    '[ TOP: h0 RELS: < [ p LBL: h1 ARG0: foo ] > ]',
    '[ TOP: h0 RELS: < [ p lbl: h1 ARG0: e2 ] > ]',
    '[ ]',
    '[ TOP: h0 INDEX: e2 [ SF: prop ] ]',
    '[ TOP: h0 INDEX: e2 [ e SF: prop ] [ TOP: h1 ]',
    '[ TOP: h0 ] [ TOP: h1 INDEX: e2 ]',
    '[ TOP: h0 RELS: < [ p<0:1> "s" "t" LBL: h1 ] > ]',
    '[ TOP: h0 RELS: < [ _x_n_1_rel LBL: h1 ARG0: x1 [ x PERS: 3 ] ARG1: x1 [ x NUM: sg ] ] > ]',
]


def gen(rng, tier):
    cases = []
    n = 260 if tier == "quick" else 12000
    for i in range(n):
        if i % 4 == 3:
            base = mc.gen_any_mrs(rng)
        else:
            base = mc.gen_wf_mrs(rng, max_nouns=2, shuffle_vars=rng.random() < 0.3, shuffle_rels=rng.random() < 0.3)
        m = decorate(rng, base, charonly=rng.random() < 0.6)
        cases.append({"k": "mrs", "m": m, "p": rng.random() < 0.7, "l": rng.random() < 0.7,
                      "indent": rng.choice([False, True, 0, 2, None])})
    for i in range(n // 8):
        ms = [decorate(rng, mc.gen_wf_mrs(rng, max_nouns=1), charonly=i % 2 == 0) for _ in range(rng.randrange(0, 4))]
        cases.append({"k": "doc", "ms": ms, "p": rng.random() < 0.7, "l": rng.random() < 0.7,
                      "indent": rng.choice([False, True, 2])})
    for i in range(n // 3):
        cases.append(gen_indexed(rng))
    for t in TEXTS:
        cases.append({"k": "text", "text": t})
    # malformed token streams
    for i in range(n // 3):
        m = decorate(rng, mc.gen_wf_mrs(rng, max_nouns=1))
        cases.append({"k": "mut", "m": m, "op": rng.choice(["del", "dup", "swap", "rep"]),
                      "pos": rng.random(), "rep": rng.randrange(0, 8)})
    return cases


SEMI_PROPS = {"e": [["TENSE", "tense"], ["MOOD", "mood"], ["PERF", "bool"]],
              "x": [["PERS", "pers"], ["NUM", "num"], ["IND", "bool"]],
              "i": [["NUM", "num"]]}
SEMI_VALUES = {"tense": ["past", "pres", "untensed"], "mood": ["indicative", "subjunctive"], "bool": ["+", "-"],
               "pers": ["1", "2", "3"], "num": ["sg", "pl"]}
IDX_CARGS = ["Kim", "the dog", "été", "犬", "a.b-c", "x<y>", "it's", "#1", "back\\slash", "quo\"te", "ends\\"]


def gen_indexed(rng):
    """an MRS for the Indexed codec: full property lists (or none), character spans, SEM-I order"""
    base = mc.gen_wf_mrs(rng, max_nouns=2, shuffle_vars=rng.random() < 0.3)
    m = {"top": base["top"], "index": base["index"], "rels": [], "hcons": [list(h) for h in base["hcons"]],
         "icons": [], "vars": [], "lnk": None, "surface": None}
    mentioned = [base["index"]]
    for r in base["rels"]:
        args = [list(a) for a in r["args"]]
        for a in args:
            if a[0] == "CARG":
                a[1] = rng.choice(IDX_CARGS)
        if rng.random() < 0.3:
            rng.shuffle(args)
        m["rels"].append({"pred": r["pred"], "label": r["label"], "args": args,
                          "lnk": _lnk(rng, charonly=True), "surface": None})
        mentioned.extend(a[1] for a in args if a[0] != "CARG")
    if rng.random() < 0.3 and len(mentioned) > 1:
        m["icons"].append([rng.choice(mentioned), rng.choice(ICONS_RELS), rng.choice(mentioned)])
    for v in sorted(set(mentioned)):
        srt = v.rstrip("0123456789")
        if srt in SEMI_PROPS and rng.random() < 0.5:
            m["vars"].append([v, [[k, rng.choice(SEMI_VALUES[t])] for k, t in SEMI_PROPS[srt]]])
    rng.shuffle(m["vars"])
    return {"k": "idx", "m": m, "p": rng.random() < 0.7, "l": rng.random() < 0.7,
            "indent": rng.choice([False, True, 2, None]), "carg_in_semi": rng.random() < 0.5}


def make_semi(ds, carg_in_semi):
    from delphin import semi
    from delphin.sembase import role_priority
    variables = {"u": {}, "i": {"parents": ["u"]}, "p": {"parents": ["u"]},
                 "e": {"parents": ["i"]}, "x": {"parents": ["i", "p"]}, "h": {"parents": ["p"]}}
    for srt, ps in SEMI_PROPS.items():
        variables[srt]["properties"] = [list(x) for x in ps]
    properties = {}
    for t, vals in SEMI_VALUES.items():
        properties[t] = {}
        for v in vals:
            properties[v] = {"parents": [t]}
    roles = {}
    predicates = {}
    for d in ds:
        for r in d["rels"]:
            syn = []
            for role, val in sorted(r["args"], key=lambda a: role_priority(a[0])):
                if role == "CARG":
                    roles[role] = {"value": "string"}
                    if carg_in_semi:
                        syn.append({"name": role, "value": "string"})
                else:
                    roles[role] = {"value": "u"}
                    syn.append({"name": role, "value": val.rstrip("0123456789")})
            predicates.setdefault(r["pred"], {"synopses": []})
            if {"roles": syn} not in predicates[r["pred"]]["synopses"]:
                predicates[r["pred"]]["synopses"].append({"roles": syn})
    return semi.SemI(variables=variables, properties=properties, roles=roles, predicates=predicates)


def nontrivial(c):
    if c["k"] in ("mrs", "mut", "idx"):
        return len(c["m"]["rels"]) >= 2
    if c["k"] == "doc":
        return len(c["ms"]) >= 2
    return True


# ------------------------------------------------------------------ implementation side

def mk_lnk(l):
    from delphin.lnk import Lnk
    if l is None:
        return None
    if l[0] == "char":
        return Lnk.charspan(l[1], l[2])
    if l[0] == "chart":
        return Lnk.chartspan(l[1], l[2])
    if l[0] == "toks":
        return Lnk.tokens(l[1:])
    return Lnk.edge(l[1])


def build(d):
    from delphin import mrs
    rels = [mrs.EP(r["pred"], r["label"], args=dict((a, b) for a, b in r["args"]),
                   lnk=mk_lnk(r.get("lnk")), surface=r.get("surface")) for r in d["rels"]]
    return mrs.MRS(d["top"], d["index"], rels,
                   hcons=[mrs.HCons(*h) for h in d["hcons"]],
                   icons=[mrs.ICons(*i) for i in d["icons"]],
                   variables=dict((k, dict((a, b) for a, b in v)) for k, v in d["vars"]),
                   lnk=mk_lnk(d.get("lnk")), surface=d.get("surface"))


def lnk_obs(l):
    from delphin.lnk import Lnk
    if l is None or l.type == Lnk.UNSPECIFIED:
        return None
    if l.type == Lnk.CHARSPAN:
        return ["char", l.data[0], l.data[1]]
    if l.type == Lnk.CHARTSPAN:
        return ["chart", l.data[0], l.data[1]]
    if l.type == Lnk.TOKENS:
        return ["toks"] + list(l.data)
    return ["edge", l.data]


def mrs_obs(m):
    return {"top": m.top, "index": m.index,
            "rels": [{"pred": ep.predicate, "label": ep.label, "args": [[r, v] for r, v in ep.args.items()],
                      "lnk": lnk_obs(ep.lnk), "surface": ep.surface} for ep in m.rels],
            "hcons": [[h.hi, h.relation, h.lo] for h in m.hcons],
            "icons": [[i.left, i.relation, i.right] for i in m.icons],
            "vars": sorted([[v, [[k, x] for k, x in ps.items()]] for v, ps in m.variables.items() if ps]),
            "lnk": lnk_obs(m.lnk), "surface": m.surface}


def lex(text):
    from delphin.codecs import simplemrs as S
    from delphin.lnk import Lnk
    out = []
    for gid, tok, _, _, _ in S.SimpleMRSLexer.prelex(text.splitlines()):
        name = S.SimpleMRSLexer.tokentypes(gid).name
        if name == "LNK":
            out.append(["LNK", lnk_obs(Lnk(tok))])
        elif name in ("LBRACK", "RBRACK", "LANGLE", "RANGLE"):
            out.append([name])
        else:
            out.append([name, tok])
    return out


def decode_tokens(toks):
    """run the real decoder on a token list"""
    from delphin.codecs import simplemrs as S
    from delphin import util
    from delphin.mrs import MRSSyntaxError
    T = S.SimpleMRSLexer.tokentypes

    def raw(t):
        if t[0] == "LNK":
            l = t[1]
            text = {"char": lambda: "<%d:%d>" % (l[1], l[2]), "chart": lambda: "<%d#%d>" % (l[1], l[2]),
                    "toks": lambda: "<%s>" % " ".join(map(str, l[1:])), "edge": lambda: "<@%d>" % l[1]}[l[0]]()
            return (T.LNK, text, 1, 0, "")
        if len(t) == 1:
            return (T[t[0]], {"LBRACK": "[", "RBRACK": "]", "LANGLE": "<", "RANGLE": ">"}[t[0]], 1, 0, "")
        return (T[t[0]], t[1], 1, 0, "")
    lexer = util.LookaheadLexer(iter([raw(t) for t in toks]), MRSSyntaxError)
    ms = []
    try:
        while True:
            try:
                lexer.peek()
            except StopIteration:
                break
            try:
                ms.append(S._decode_mrs(lexer))
            except StopIteration:
                # the token stream ends inside an item: simplemrs.decode lets StopIteration escape and
                # loads silently drops the item; both count as "not read" here
                return {"err": "EOF"}
    except (MRSSyntaxError, ValueError) as e:
        return {"err": type(e).__name__}
    return {"ms": [mrs_obs(m) for m in ms]}


def mutate(toks, c):
    toks = [list(t) for t in toks]
    if not toks:
        return toks
    i = min(int(c["pos"] * len(toks)), len(toks) - 1)
    reps = [["LBRACK"], ["RBRACK"], ["LANGLE"], ["RANGLE"], ["SYMBOL", "h1"], ["FEATURE", "ARG1"],
            ["DQSTRING", "a\\\"b"], ["LNK", ["char", 0, 1]]]
    if c["op"] == "del":
        del toks[i]
    elif c["op"] == "dup":
        toks.insert(i, toks[i])
    elif c["op"] == "swap" and i + 1 < len(toks):
        toks[i], toks[i + 1] = toks[i + 1], toks[i]
    else:
        toks[i] = reps[c["rep"] % len(reps)]
    return toks


def observe(c):
    from delphin.codecs import simplemrs as S
    if c["k"] == "mrs":
        m = build(c["m"])
        text = S.encode(m, properties=c["p"], lnk=c["l"], indent=c["indent"])
        toks = lex(text)
        o = {"toks": toks, "dec": decode_tokens(toks)}
        from delphin.codecs import mrsjson
        d = mrsjson.to_dict(m, properties=c["p"], lnk=c["l"])
        back = mrsjson.from_dict(d)
        full = mrs_obs(m)
        full["vars"] = [[v, [[k, x] for k, x in ps.items()]] for v, ps in m.variables.items()]
        bk = mrs_obs(back)
        bk["vars"] = [[v, [[k, x] for k, x in ps.items()]] for v, ps in back.variables.items()]
        o["json"] = {"d": d, "full": full, "back": bk}
        return o
    if c["k"] == "doc":
        ms = [build(d) for d in c["ms"]]
        text = S.dumps(ms, properties=c["p"], lnk=c["l"], indent=c["indent"])
        toks = lex(text)
        return {"toks": toks, "dec": decode_tokens(toks)}
    if c["k"] == "text":
        from delphin.mrs import MRSSyntaxError
        try:
            toks = lex(c["text"])
        except MRSSyntaxError:
            return {"lexerr": True}
        return {"toks": toks, "dec": decode_tokens(toks)}
    if c["k"] == "mut":
        m = build(c["m"])
        toks = mutate(lex(S.encode(m)), c)
        return {"toks": toks, "dec": decode_tokens(toks)}
    if c["k"] == "idx":
        return {}
    raise ValueError(c["k"])


# ------------------------------------------------------------------ oracle

def project(o, p, l, fmt):
    """what the format carries of an observation, with properties/alignments suppressed"""
    import copy
    o = copy.deepcopy(o)
    for r in o["rels"]:
        r["args"] = sorted(r["args"])
        if not l:
            r["lnk"] = None
            r["surface"] = None
        if fmt in ("mrx", "json", "indexed"):
            lk = r["lnk"]
            r["lnk"] = lk if (lk and lk[0] == "char" and lk[1:] != [-1, -1]) else None
    if not l or fmt in ("json", "indexed"):
        o["lnk"] = None
        o["surface"] = None
    else:
        lk = o["lnk"]
        if fmt == "mrx":
            o["lnk"] = lk if (lk and lk[0] == "char" and lk[1:] != [-1, -1]) else None
        elif lk == ["char", -1, -1]:
            o["lnk"] = None
    if not p:
        o["vars"] = []
    o["vars"] = sorted([v, sorted([k, x.lower() if fmt == "indexed" else x] for k, x in ps)] for v, ps in o["vars"])
    return o


def _norm_obs(o, fmt):
    return project(o, True, True, fmt)


def _check_codec(name, mod, fmt, m, d, c, kw=None):
    kw = kw or {}
    p, l, indent = c["p"], c["l"], c["indent"]
    expect = project(mrs_obs(m), p, l, fmt)
    text = mod.encode(m, properties=p, lnk=l, indent=indent, **kw)
    try:
        m2 = mod.decode(text, **kw)
    except Exception as e:
        return "%s: the codec cannot read its own output (%s: %s)" % (name, type(e).__name__, str(e)[:80])
    got = _norm_obs(mrs_obs(m2), fmt)
    if got != expect:
        for key in expect:
            if got[key] != expect[key]:
                return "%s: decode(encode(m)) differs in %s: %r vs %r" % (name, key, got[key], expect[key])
    text2 = mod.encode(m2, properties=p, lnk=l, indent=indent, **kw)
    if text2 != text:
        return "%s: re-encoding the decoded structure does not reproduce the text" % name
    # single vs list API
    doc = mod.dumps([m, m2], properties=p, lnk=l, indent=indent, **kw)
    back = mod.loads(doc, **kw)
    if len(back) != 2 or any(_norm_obs(mrs_obs(b), fmt) != expect for b in back):
        return "%s: dumps/loads of a two-item document does not give the two structures" % name
    if mod.dumps(back, properties=p, lnk=l, indent=indent, **kw) != doc:
        return "%s: dumps(loads(doc)) differs from doc" % name
    return None


def expressible(d, fmt):
    """is every piece of d carried by the format (beyond lnk kinds, handled by project)?"""
    mentioned = set()
    if d["index"] is not None:
        mentioned.add(d["index"])
    for r in d["rels"]:
        mentioned.update(a[1] for a in r["args"] if a[0] != "CARG")
    for i in d["icons"]:
        mentioned.update([i[0], i[2]])
    if fmt == "mrx":
        for h in d["hcons"]:
            mentioned.add(h[0])
    for v, ps in d["vars"]:
        if ps and v not in mentioned:
            return False
    if fmt == "mrx":
        # labels, top and the low end of constraints are written without their sort
        hs = [d["top"]] + [r["label"] for r in d["rels"]] + [h[2] for h in d["hcons"]]
        if any(h is not None and not (h[0] == "h" and h[1:].isdigit()) for h in hs):
            return False
        if d["top"] is None:
            return False
    if fmt in ("mrx", "json", "indexed"):
        lnks = [r.get("lnk") for r in d["rels"]] + ([d.get("lnk")] if fmt == "mrx" else [])
        if any(l is not None and l[0] != "char" for l in lnks):
            return False
    return True


def oracle(c):
    from delphin.codecs import simplemrs, mrx, mrsjson
    if c["k"] == "mrs":
        d = c["m"]
        m = build(d)
        for name, mod, fmt in (("simplemrs", simplemrs, "simple"), ("mrx", mrx, "mrx"), ("mrsjson", mrsjson, "json")):
            if not expressible(d, fmt):
                continue
            r = _check_codec(name, mod, fmt, m, d, c)
            if r:
                return r
        return None
    if c["k"] == "idx":
        return _oracle_indexed(c)
    if c["k"] == "doc":
        ms = [build(d) for d in c["ms"]]
        for name, mod, fmt in (("simplemrs", simplemrs, "simple"), ("mrx", mrx, "mrx"), ("mrsjson", mrsjson, "json")):
            if not all(expressible(d, fmt) for d in c["ms"]):
                continue
            doc = mod.dumps(ms, properties=c["p"], lnk=c["l"], indent=c["indent"])
            back = mod.loads(doc)
            if len(back) != len(ms):
                return "%s: a document of %d items reads back as %d" % (name, len(ms), len(back))
            for a, b in zip(ms, back):
                if project(mrs_obs(a), c["p"], c["l"], fmt) != _norm_obs(mrs_obs(b), fmt):
                    return "%s: an item of a document reads back differently" % name
            if mod.dumps(back, properties=c["p"], lnk=c["l"], indent=c["indent"]) != doc:
                return "%s: dumps(loads(doc)) differs from doc" % name
        return None
    return None


def _oracle_indexed(c):
    from delphin.codecs import indexedmrs
    d = c["m"]
    m = build(d)
    sm = make_semi([d], c["carg_in_semi"])
    r = _check_codec("indexedmrs", indexedmrs, "indexed", m, d, c, kw={"semi": sm})
    return r


def known_match(case, failure, known):
    if (case.get("k") == "idx" and case.get("carg_in_semi") and isinstance(failure, str)
            and "no valid synopsis" in failure
            and any(a[0] == "CARG" for r in case["m"]["rels"] for a in r["args"])):
        for e in known:
            if e["id"] == "F27":
                return "F27"
    return None


# ------------------------------------------------------------------ Coq side

def c_lnk(l):
    if l is None:
        return "LNone"
    if l[0] == "char":
        return "(LChar %s %s)" % (cZ(l[1]), cZ(l[2]))
    if l[0] == "chart":
        return "(LChart %s %s)" % (cZ(l[1]), cZ(l[2]))
    if l[0] == "toks":
        return "(LToks %s)" % clist(l[1:], cZ)
    return "(LEdge %s)" % cZ(l[1])


def c_pairs(ps):
    return clist(ps, lambda p: "(%s, %s)" % (cstr(p[0]), cstr(p[1])))


def c_xep(r):
    return ("{| x_pred := %s; x_label := %s; x_args := %s; x_lnk := %s; x_surface := %s |}"
            % (cstr(r["pred"]), cstr(r["label"]), c_pairs(r["args"]), c_lnk(r.get("lnk")),
               copt(r.get("surface"), cstr)))


def c_xmrs(d):
    return ("{| xm_top := %s; xm_index := %s; xm_rels := %s; xm_hcons := %s; xm_icons := %s; xm_vars := %s; "
            "xm_lnk := %s; xm_surface := %s |}"
            % (copt(d["top"], cstr), copt(d["index"], cstr), clist(d["rels"], c_xep),
               clist(d["hcons"], mc.coq_c3), clist(d["icons"], mc.coq_c3),
               clist(d["vars"], lambda kv: "(%s, %s)" % (cstr(kv[0]), c_pairs(kv[1]))),
               c_lnk(d.get("lnk")), copt(d.get("surface"), cstr)))


TOKC = {"LBRACK": "TLB", "RBRACK": "TRB", "LANGLE": "TLA", "RANGLE": "TRA"}
TOKS = {"DQSTRING": "TDQ", "SQSYMBOL": "TSQ", "PREDICATE": "TPRED", "FEATURE": "TFEAT", "SYMBOL": "TSYM"}


def c_tok(t):
    if t[0] in TOKC:
        return TOKC[t[0]]
    if t[0] == "LNK":
        return "(TLNK %s)" % c_lnk(t[1])
    return "(%s %s)" % (TOKS[t[0]], cstr(t[1]))


def c_dec(dec):
    if "err" in dec:
        return "None"
    return "(Some %s)" % clist(dec["ms"], c_xmrs)


def c_jv(v):
    if v is None:
        return "JNull"
    if isinstance(v, bool):
        raise ValueError("bool in MRS-JSON")
    if isinstance(v, int):
        return "(JInt %s)" % cZ(v)
    if isinstance(v, str):
        return "(JStr %s)" % cstr(v)
    if isinstance(v, dict):
        return "(JObj %s)" % clist(list(v.items()), lambda kv: "(%s, %s)" % (cstr(kv[0]), c_jv(kv[1])))
    if isinstance(v, list):
        return "(JArr %s)" % clist(v, c_jv)
    raise ValueError(type(v).__name__)


def coq_case(c, o):
    if "exc" in o:
        raise ValueError("harness")
    if "lexerr" in o or c["k"] == "idx":
        return None
    toks = clist(o["toks"], c_tok)
    dec = app("CDec", toks, c_dec(o["dec"]))
    if c["k"] == "mrs":
        out = [app("CEnc", cbool(c["p"]), cbool(c["l"]), c_xmrs(c["m"]), "(Some %s)" % toks), dec]
        if "json" in o and all(r.get("surface") != "" for r in c["m"]["rels"]):
            j = o["json"]
            out.append(app("CJson", cbool(c["p"]), cbool(c["l"]), c_xmrs(j["full"]), c_jv(j["d"]), c_xmrs(j["back"])))
        return out
    return dec
