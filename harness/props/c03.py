"""C03 — EDS codecs: native EDS (modelled at token level), EDS-JSON, EDS-PENMAN (oracle)."""
from harness.coqlit import cstr, cZ, copt, clist, app, cbool, cnat
from harness.props import c01, c02

ID = "C03"
COQ_TARGETS = ["Props/C03.vo", "Corr/C03.vo"]
TIE_A = []
CASE_TIMEOUT = 20
SHARD = 60
RULE = ("EDS graphs with 0-6 nodes (string ids such as e2, x5, _1, q7), any edge map between existing nodes "
        "(cycles, self loops, several components), optional top (also a top that is not the first node), types in "
        "{x,e,i,u,p,None}, 0-4 properties on typed and untyped nodes, constants with blanks, quotes, backslashes, "
        "parentheses and non-ASCII characters, every Lnk kind, optional identifier; crossed with properties, lnk, "
        "show_status, indent and the list API; hand-written native texts; token streams with a token deleted, "
        "duplicated or replaced. Compared: the tokens of the encoder's text under the real lexer (incl. status "
        "markers) and the decoded graph or rejection. The oracle runs round trip and stability on the native "
        "codec, EDS-JSON and, for graphs connected from the top, EDS-PENMAN. Non-trivial = at least 2 nodes and "
        "an edge; distinct = canonical JSON.")
EXHAUSTIVE = {"quick": False, "thorough": False}
EXPLANATION = ("The native round trip is a theorem over the lexer's token stream for all graphs and any placement of "
               "status markers; the lexer's regular expressions and white space are oracles. EDS-JSON and "
               "EDS-PENMAN are decided on the implementation by the oracle.")
ASSUMPTIONS = [
    "node ids, predicates (lower case), roles and property names (upper case), property values (lower case) and "
    "types are lexer symbols (no blank, ':', ',', '<', '(', brackets or braces)",
    "Lnk token lists are non-empty",
]
TRUSTED = ["_EDSLexer regular expressions (exercised through the real lexer on every case)",
           "harness mapping from lexer tokens to the model's token type"]
LEVEL_TEXT = ("Proof (Coq, no axioms) about the token-level model of delphin/codecs/eds.py: decoding the encoder's "
              "token stream returns identifier, top (present, absent, or different from the first node) and every "
              "node (id, predicate, alignment, constant, type, properties in priority order, edges in role order) "
              "exactly, for any placement of the status markers, minus properties/alignments when suppressed; the "
              "lookahead-based top detection is correct on every encoder output. The models (incl. the connectivity "
              "computation behind the status markers) are tied to the code by kernel-checked correspondence on the "
              "real lexer's tokens; text-level round trips, stability, indentation, lists, EDS-JSON and EDS-PENMAN "
              "are checked on the implementation by the oracle.")
LEVEL_NOTE = ("Partial: lexer regular expressions and white space are oracles; EDS-PENMAN is oracle-checked, not "
              "modelled; EDS-JSON is modelled at the level of the JSON value incl. the re-sorting of nodes by span "
              "(json.dumps/loads are oracles).")
TECHNIQUE = "Coq proof (token-level decode-of-encode incl. top lookahead) + kernel-checked correspondence + round-trip oracle"
DESIGN_REF = "DESIGN.md section 6, C03"

PREDS = ["_dog_n_1", "_the_q", "udef_q", "_look_v_up-at", "compound", "_in+order+to_x", "named", "proper_q",
         "_犬_n_1", "poss", "_24x7_a_1", "pron", "_bark_v_1", "_quick_a_1", "neg", "_a_q", "e2"]
TYPES = c02.TYPES
PROPS = c02.PROPS
ROLES = ["ARG1", "ARG2", "ARG3", "BV", "L-INDEX", "R-HNDL", "ARG", "MOD"]
STRS = c01.STRS + ["a(b)", "(", "x)"]
IDS = ["e2", "x5", "_1", "q7", "e10", "x11", "i3", "_2", "e21", "top"]
IDENTS = [None, None, "10", "abc", "item-7"]


def gen_eds(rng, charonly=False, connected=False):
    n = rng.randrange(0, 7) if not connected else rng.randrange(1, 6)
    ids = rng.sample(IDS, n)
    nodes = []
    for k, i in enumerate(ids):
        pred = rng.choice(PREDS)
        props = rng.sample(PROPS, rng.randrange(1, 5)) if rng.random() < 0.5 else []
        edges = []
        if connected and k > 0:
            edges.append([rng.choice(ROLES), ids[rng.randrange(0, k)]])
        for _ in range(rng.choice([0, 0, 1, 1, 2, 3])):
            role = rng.choice(ROLES)
            if role not in [e[0] for e in edges]:
                edges.append([role, rng.choice(ids)])
        if rng.random() < 0.3:
            rng.shuffle(edges)
        nodes.append({"id": i, "pred": pred, "type": rng.choice(TYPES), "props": props, "edges": edges,
                      "carg": rng.choice(STRS) if (pred == "named" or rng.random() < 0.1) else None,
                      "lnk": c01._lnk(rng, charonly)})
    top = None
    if ids and (connected or rng.random() < 0.75):
        top = ids[0] if rng.random() < 0.6 else rng.choice(ids)
    return {"top": top, "nodes": nodes, "identifier": rng.choice(IDENTS)}


TEXTS = [
    '{e2: e2:_rain_v_1<3:9>{e SF prop, TENSE pres}[]}',
    '#12 {e2: (fragmented) e2:_bark_v_1<4:9>[ARG1 x3] |x3:_dog_n_1<0:3>{x PERS 3, NUM sg}[] _1:_the_q[BV x3]}',
    '{x3:named<0:3>("Kim"){x}[]}',
    '{: x3:named("Kim")[]}',
    '{(fragmented) x3:pron[]}',
    '{}',
    '{e2:}',
    '{e2: e2:p[ARG1]}',
    '{e2: e2:P<0:1>[arg1 e2, arg1 x3] }',
    '{e2: (cyclic fragmented) e2:p[] }',
    '{e2: e2:p{}[]}',
    '{e2: e2:p{e TENSE}[]}',
    '{e2: | e2:p[] | x3:q[]}',
    '#a { e2:p[] } #b { x3:q[] }',
    '{e2: e2:p("a\\"b")[]}',
    '{e2:p[]',
]


def gen(rng, tier):
    cases = []
    n = 300 if tier == "quick" else 12000
    for i in range(n):
        e = gen_eds(rng, charonly=rng.random() < 0.6, connected=i % 3 == 0)
        cases.append({"k": "eds", "e": e, "p": rng.random() < 0.7, "l": rng.random() < 0.7,
                      "st": rng.random() < 0.5, "indent": rng.choice([False, True, 0, 2, None])})
    for i in range(n // 8):
        es = [gen_eds(rng, charonly=True, connected=True) for _ in range(rng.randrange(0, 4))]
        cases.append({"k": "doc", "es": es, "p": rng.random() < 0.7, "l": rng.random() < 0.7,
                      "st": rng.random() < 0.5, "indent": rng.choice([False, True, 2])})
    # a constant that is the empty string (choices from a generator of their own)
    import random
    lrng = random.Random("c03-empty-constant-" + tier)
    for i in range(12 if tier == "quick" else 120):
        e = gen_eds(lrng, charonly=True, connected=True)
        e["nodes"][lrng.randrange(len(e["nodes"]))]["carg"] = ""
        cases.append({"k": "eds", "e": e, "p": lrng.random() < 0.7, "l": lrng.random() < 0.7,
                      "st": lrng.random() < 0.5, "indent": lrng.choice([False, True, 2, None])})
    for t in TEXTS:
        cases.append({"k": "text", "text": t})
    for i in range(n // 3):
        cases.append({"k": "mut", "e": gen_eds(rng), "st": rng.random() < 0.5,
                      "op": rng.choice(["del", "dup", "swap", "rep"]), "pos": rng.random(), "rep": rng.randrange(0, 9)})
    return cases


def nontrivial(c):
    if c["k"] in ("eds", "mut"):
        return len(c["e"]["nodes"]) >= 2 and any(n["edges"] for n in c["e"]["nodes"])
    if c["k"] == "doc":
        return len(c["es"]) >= 2
    return True


# ------------------------------------------------------------------ implementation side

def build(d):
    from delphin import eds
    nodes = [eds.Node(n["id"], n["pred"], type=n["type"], edges=dict((a, b) for a, b in n["edges"]),
                      properties=dict((a, b) for a, b in n["props"]), carg=n["carg"], lnk=c01.mk_lnk(n.get("lnk")))
             for n in d["nodes"]]
    return eds.EDS(top=d["top"], nodes=nodes, identifier=d.get("identifier"))


def eds_obs(x):
    return {"top": x.top,
            "nodes": [{"id": n.id, "pred": n.predicate, "type": n.type,
                       "props": [[k, v] for k, v in n.properties.items()],
                       "edges": [[k, v] for k, v in n.edges.items()], "carg": n.carg,
                       "lnk": c01.lnk_obs(n.lnk)} for n in x.nodes],
            "identifier": x.identifier}


def lex(text):
    from delphin.codecs import eds as S
    from delphin.lnk import Lnk
    out = []
    L = S._EDSLexer
    for gid, tok, _, _, _ in L.prelex(text.splitlines()):
        name = L.tokentypes(gid).name
        if name == "LNK":
            out.append(["LNK", c01.lnk_obs(Lnk(tok))])
        elif name in ("IDENTIFIER", "CARG", "SYMBOL", "GRAPHSTATUS"):
            out.append([name, tok])
        else:
            out.append([name])
    return out


PUNCT = {"LBRACE": "{", "RBRACE": "}", "NODESTATUS": "|", "COLON": ":", "COMMA": ",", "LBRACKET": "[", "RBRACKET": "]"}


def decode_tokens(toks):
    from delphin.codecs import eds as S
    from delphin import util
    from delphin.eds import EDSSyntaxError
    T = S._EDSLexer.tokentypes

    def raw(t):
        if t[0] == "LNK":
            l = t[1]
            text = {"char": lambda: "<%d:%d>" % (l[1], l[2]), "chart": lambda: "<%d#%d>" % (l[1], l[2]),
                    "toks": lambda: "<%s>" % " ".join(map(str, l[1:])), "edge": lambda: "<@%d>" % l[1]}[l[0]]()
            return (T.LNK, text, 1, 0, "")
        if len(t) == 1:
            return (T[t[0]], PUNCT[t[0]], 1, 0, "")
        return (T[t[0]], t[1], 1, 0, "")
    lexer = util.LookaheadLexer(iter([raw(t) for t in toks]), EDSSyntaxError)
    out = []
    try:
        while True:
            try:
                lexer.peek()
            except StopIteration:
                break
            try:
                out.append(S._decode_eds(lexer))
            except StopIteration:
                return {"err": "EOF"}
    except (EDSSyntaxError, ValueError, IndexError) as e:
        # the top-detection lookahead raises IndexError when fewer than four tokens remain
        return {"err": type(e).__name__}
    return {"es": [eds_obs(x) for x in out]}


def mutate(toks, c):
    toks = [list(t) for t in toks]
    if not toks:
        return toks
    i = min(int(c["pos"] * len(toks)), len(toks) - 1)
    reps = [["LBRACE"], ["RBRACE"], ["LBRACKET"], ["RBRACKET"], ["SYMBOL", "x"], ["COLON"],
            ["CARG", "a\\\"b"], ["LNK", ["char", 0, 1]], ["COMMA"]]
    if c["op"] == "del":
        del toks[i]
    elif c["op"] == "dup":
        toks.insert(i, toks[i])
    elif c["op"] == "swap" and i + 1 < len(toks):
        toks[i], toks[i + 1] = toks[i + 1], toks[i]
    else:
        toks[i] = reps[c["rep"] % len(reps)]
    return toks


def observe(c):
    from delphin.codecs import eds as S
    from delphin.eds import EDSSyntaxError
    try:
        if c["k"] == "eds":
            text = S.encode(build(c["e"]), properties=c["p"], lnk=c["l"], show_status=c["st"], indent=c["indent"])
            toks = lex(text)
        elif c["k"] == "doc":
            text = S.dumps([build(d) for d in c["es"]], properties=c["p"], lnk=c["l"], show_status=c["st"],
                           indent=c["indent"])
            toks = lex(text)
        elif c["k"] == "text":
            toks = lex(c["text"])
        elif c["k"] == "mut":
            toks = mutate(lex(S.encode(build(c["e"]), show_status=c["st"])), c)
        else:
            raise ValueError(c["k"])
    except EDSSyntaxError:
        return {"lexerr": True}
    o = {"toks": toks, "dec": decode_tokens(toks)}
    if c["k"] == "eds":
        from delphin.codecs import edsjson
        x = build(c["e"])
        d = edsjson.to_dict(x, properties=c["p"], lnk=c["l"])
        o["json"] = {"d": d, "back": eds_obs(edsjson.from_dict(d))}
    return o


# ------------------------------------------------------------------ oracle

def project(o, p, l, fmt):
    import copy
    o = copy.deepcopy(o)
    for n in o["nodes"]:
        if not l:
            n["lnk"] = None
        if fmt in ("json",):
            lk = n["lnk"]
            n["lnk"] = lk if (lk and lk[0] == "char" and lk[1:] != [-1, -1]) else None
        elif n["lnk"] == ["char", -1, -1]:
            n["lnk"] = None
        if not p:
            n["props"] = []
            if fmt == "native":
                n["type"] = None
        n["props"] = sorted(n["props"])
        n["edges"] = sorted(n["edges"])
    if fmt in ("json", "penman"):
        o["identifier"] = None
    if fmt == "json":
        o["nodes"] = sorted(o["nodes"], key=lambda n: n["id"])
    return o


def expressible(d, fmt):
    if fmt == "json":
        if any(n.get("lnk") is not None and n["lnk"][0] != "char" for n in d["nodes"]):
            return False
    if fmt == "penman":
        if d["top"] is None or not d["nodes"]:
            return False
        # a predicate spelled like a node identifier is read by penman as a reference to that node
        if any(n["pred"] in [m["id"] for m in d["nodes"]] for n in d["nodes"]):
            return False
        adj = {n["id"]: set() for n in d["nodes"]}
        for n in d["nodes"]:
            for r, t in n["edges"]:
                adj[n["id"]].add(t)
                adj[t].add(n["id"])
        seen, todo = {d["top"]}, [d["top"]]
        while todo:
            for y in adj[todo.pop()]:
                if y not in seen:
                    seen.add(y)
                    todo.append(y)
        if len(seen) != len(adj):
            return False
    return True


def _check_codec(name, mod, fmt, x, c):
    p, l, indent = c["p"], c["l"], c["indent"]
    kw = {"show_status": c["st"]} if fmt == "native" else {}
    expect = project(eds_obs(x), p, l, fmt)
    try:
        text = mod.encode(x, properties=p, lnk=l, indent=indent, **kw)
    except Exception as e:
        return "%s: encode raised %s: %s" % (name, type(e).__name__, str(e)[:80])
    try:
        x2 = mod.decode(text)
    except Exception as e:
        return "%s: the codec cannot read its own output (%s: %s)" % (name, type(e).__name__, str(e)[:80])
    got = project(eds_obs(x2), True, True, fmt)
    if fmt == "penman":
        ga = dict(got, nodes=sorted(got["nodes"], key=lambda n: n["id"]))
        ea = dict(expect, nodes=sorted(expect["nodes"], key=lambda n: n["id"]))
        got, expect = ga, ea
    untyped = None
    if got != expect:
        import copy
        expect_u = copy.deepcopy(expect)
        for n in expect_u["nodes"]:
            if n["type"] is None and n["props"]:
                n["type"] = "u"
        if fmt == "native" and got == expect_u:
            untyped = "%s: a node without a type that has properties reads back with type u" % name
        else:
            for key in expect:
                if got[key] != expect[key]:
                    return "%s: decode(encode(e)) differs in %s: %r vs %r" % (name, key, got[key], expect[key])
    if fmt == "native":
        text2 = mod.encode(x2, properties=p, lnk=l, indent=indent, **kw)
        if text2 != text:
            return "%s: re-encoding the decoded graph does not reproduce the text" % name
    else:
        x3 = mod.decode(mod.encode(x2, properties=p, lnk=l, indent=indent))
        a = project(eds_obs(x2), p, l, fmt)
        b = project(eds_obs(x3), True, True, fmt)
        a["nodes"] = sorted(a["nodes"], key=lambda n: n["id"])
        b["nodes"] = sorted(b["nodes"], key=lambda n: n["id"])
        if a != b:
            return "%s: a second round trip changes the graph" % name
    doc = mod.dumps([x, x2], properties=p, lnk=l, indent=indent, **kw)
    back = mod.loads(doc)
    if len(back) != 2:
        return "%s: dumps/loads of a two-item document gives %d items" % (name, len(back))
    # single vs list API: an item of a document is what the single-item functions give for it
    one = project(eds_obs(x2), True, True, fmt)
    one["nodes"] = sorted(one["nodes"], key=lambda n: n["id"])
    for b in back:
        gb = project(eds_obs(b), True, True, fmt)
        gb["nodes"] = sorted(gb["nodes"], key=lambda n: n["id"])
        if gb != one:
            for key in one:
                if gb[key] != one[key]:
                    return "%s: an item read from a document differs from decode(encode(item)) in %s: %r vs %r" % (
                        name, key, gb[key], one[key])
    if fmt == "native" and mod.dumps(back, properties=p, lnk=l, indent=indent, **kw) != doc:
        return "%s: dumps(loads(doc)) differs from doc" % name
    return untyped


def codecs():
    from delphin.codecs import eds, edsjson, edspenman
    return (("eds", eds, "native"), ("edsjson", edsjson, "json"), ("edspenman", edspenman, "penman"))


def oracle(c):
    import logging
    logging.disable(logging.CRITICAL)
    if c["k"] == "eds":
        d = c["e"]
        x = build(d)
        rs = []
        for name, mod, fmt in codecs():
            if not expressible(d, fmt):
                continue
            r = _check_codec(name, mod, fmt, x, c)
            if r:
                rs.append(r)
        hard = [r for r in rs if "reads back with type u" not in r]
        if hard:
            return " || ".join(hard)
        return rs[0] if rs else None
    if c["k"] == "doc":
        xs = [build(d) for d in c["es"]]
        for name, mod, fmt in codecs():
            if not all(expressible(d, fmt) for d in c["es"]):
                continue
            kw = {"show_status": c["st"]} if fmt == "native" else {}
            doc = mod.dumps(xs, properties=c["p"], lnk=c["l"], indent=c["indent"], **kw)
            back = mod.loads(doc)
            if len(back) != len(xs):
                return "%s: a document of %d items reads back as %d" % (name, len(xs), len(back))
            for x, b in zip(xs, back):
                one = project(eds_obs(mod.decode(mod.encode(x, properties=c["p"], lnk=c["l"], indent=c["indent"], **kw))),
                              True, True, fmt)
                gb = project(eds_obs(b), True, True, fmt)
                one["nodes"] = sorted(one["nodes"], key=lambda n: n["id"])
                gb["nodes"] = sorted(gb["nodes"], key=lambda n: n["id"])
                if gb != one:
                    return "%s: an item read from a document differs from decode(encode(item))" % name
            if fmt == "native" and mod.dumps(back, properties=c["p"], lnk=c["l"], indent=c["indent"], **kw) != doc:
                return "%s: dumps(loads(doc)) differs from doc" % name
        return None
    return None


def known_match(case, failure, known):
    if (isinstance(failure, str) and failure.startswith("eds: a node without a type that has properties")
            and case.get("k") == "eds" and case["p"]
            and any(n["type"] is None and n["props"] for n in case["e"]["nodes"])):
        for e in known:
            if e["id"] == "F13e":
                return "F13e"
    return None


# ------------------------------------------------------------------ Coq side

def c_vnode(n):
    return ("{| v_id := %s; v_pred := %s; v_type := %s; v_edges := %s; v_props := %s; v_carg := %s; v_lnk := %s |}"
            % (cstr(n["id"]), cstr(n["pred"]), copt(n["type"], cstr), c01.c_pairs(n["edges"]),
               c01.c_pairs(n["props"]), copt(n["carg"], cstr), c01.c_lnk(n.get("lnk"))))


def c_veds(d):
    return "{| ve_top := %s; ve_nodes := %s; ve_ident := %s |}" % (
        copt(d["top"], cstr), clist(d["nodes"], c_vnode), copt(d.get("identifier"), cstr))


TOKC = {"LBRACE": "ELBRACE", "RBRACE": "ERBRACE", "NODESTATUS": "ENSTATUS", "COLON": "ECOLON", "COMMA": "ECOMMA",
        "LBRACKET": "ELBRK", "RBRACKET": "ERBRK"}
TOKS = {"IDENTIFIER": "EIDENT", "GRAPHSTATUS": "EGSTATUS", "CARG": "ECARG", "SYMBOL": "ESYM"}


def c_tok(t):
    if t[0] in TOKC:
        return TOKC[t[0]]
    if t[0] == "LNK":
        return "(ELNK %s)" % c01.c_lnk(t[1])
    return "(%s %s)" % (TOKS[t[0]], cstr(t[1]))


def coq_case(c, o):
    if "exc" in o:
        raise ValueError("harness")
    if "lexerr" in o:
        return None
    toks = clist(o["toks"], c_tok)
    dec = app("EDec", toks, "None" if "err" in o["dec"] else "(Some %s)" % clist(o["dec"]["es"], c_veds))
    if c["k"] == "eds":
        out = [app("EEnc", cbool(c["p"]), cbool(c["l"]), cbool(c["st"]), c_veds(c["e"]), "(Some %s)" % toks), dec]
        if "json" in o:
            out.append(app("EJson", cbool(c["p"]), cbool(c["l"]), c_veds(c["e"]), c01.c_jv(o["json"]["d"]),
                           c_veds(o["json"]["back"])))
        return out
    return dec
