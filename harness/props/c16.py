"""C16 — derivation trees (delphin.derivation): UDF/UDX/dict round trips and navigation."""
from harness.coqlit import cstr, cZ, copt, clist, app, cbool, cnat

ID = "C16"
COQ_TARGETS = ["Props/C16.vo", "Corr/C16.vo"]
TIE_A = []
RULE = ("derivation trees up to depth 5 and branching 3, with and without a root node, head marks and "
        "types on any node, preterminals whose terminal has 0-3 tokens with feature-structure strings "
        "containing escaped quotes and backslashes, scores from a set incl. defaults, negatives, tiny and "
        "huge values; all of indent None/0/1/2/4 x UDF/UDX. Compared: the serialised text, the parsed tree, "
        "the dictionary round trip, terminals/preterminals/internals. Non-trivial = depth >= 3 or a head/"
        "type mark; distinct = canonical JSON.")
EXHAUSTIVE = {"quick": False, "thorough": False}
EXPLANATION = ("The token-level round trip (stack machine of from_string over the UDF token stream), print "
               "stability, the dictionary round trip and the partition are theorems for all trees. The "
               "character-level scanner (the _udf_re regular expression) is not modelled: the text the model "
               "prints is compared with to_udf/to_udx and the implementation's parse of that text is compared "
               "with the model's normal form.")
ASSUMPTIONS = [
    "scores are carried as their %g text; '%g' % float('%g' % x) == '%g' % x (checked by the oracle)",
    "entities contain no '@', whitespace, parentheses or leading '^'; forms and token strings contain "
    "quotes only in escaped form (as the property's quantifier says)",
    "the regular expression scanner of from_string is an oracle validated through the round trip itself",
]
TRUSTED = []
LEVEL_TEXT = ("Proof (Coq, no axioms): for every derivation tree (any depth/branching, root or not, head marks "
              "and types anywhere, any terminals and tokens) the stack machine of from_string applied to the "
              "token stream of to_udf/to_udx returns the tree itself (UDF: minus head marks and types), ignoring "
              "trailing input; printing the parsed tree reproduces the text at every indentation; from_dict "
              "inverts to_dict; nonterminals are partitioned into preterminals and internal nodes and the "
              "terminals are exactly the forms under the preterminals. The formatter, parser, dictionary form "
              "and navigation helpers are tied to delphin/derivation.py by kernel-checked correspondence.")
LEVEL_NOTE = ("Partial: the character-level regular-expression scanner and %g are oracles. parent pointers are "
              "checked by the oracle only (a pure tree has no parent field). One defect (F14) was repaired by a "
              "fix: commit. F35 (a head mark or type on the root node is lost by UDX text and by the dictionary form) is a "
              "known finding.")
TECHNIQUE = "Coq proof (token-level parse-of-print by tree induction) + kernel-checked correspondence"
DESIGN_REF = "DESIGN.md section 6, C16"

SCORES = [None, 0.5, -1.0, 1.0, 0.0, 1e-05, 123456789.0, -2.25, 3.14159265, 1e+20, 42.0]
ENTS = ["sb-hd_mc_c", "hd_xaj-int-vp_c", "n_-_pn_le", "v_-_le", "abrams", "hdn_bnp-pn_c", "x"]
TYPES = [None, None, "n_-_pn_le", "phrase", "t"]
FORMS = ["abrams", "sleeps.", "ad hoc", "a\\\"b", "ca\\\\t", "été", "", "\\\"hi\\\"", "x\\\""]
TFS = ["token [ +FORM \\\"abrams\\\" +FROM \\\"0\\\" +TO \\\"6\\\" ]", "x", "a\\\\b", "[ ]", "",
       "token [ +FORM \\\"a\\\"", "\\\"q"]


def _gen_node(rng, depth, counter):
    counter[0] += 1
    nid = counter[0] if rng.random() < 0.9 else rng.randrange(0, 9999)
    node = {"id": nid, "entity": rng.choice(ENTS), "score": rng.choice(SCORES),
            "start": rng.choice([None, 0, 1, 2, 7]), "end": rng.choice([None, 1, 2, 3, 9]),
            "head": rng.random() < 0.3, "type": rng.choice(TYPES)}
    if depth <= 1 or rng.random() < 0.35:
        toks = [[rng.randrange(0, 99), rng.choice(TFS)] for _ in range(rng.choice([0, 1, 1, 2, 3]))]
        node["dtrs"] = [{"form": rng.choice(FORMS), "tokens": toks}]
    else:
        node["dtrs"] = [_gen_node(rng, depth - 1, counter) for _ in range(rng.randrange(1, 4))]
    return node


def gen(rng, tier):
    cases = []
    n = 250 if tier == "quick" else 3000
    for _ in range(n):
        t = _gen_node(rng, rng.randrange(1, 6), [0])
        if rng.random() < 0.4:
            t = {"id": None, "entity": rng.choice(["root_strict", "root_informal"]), "score": None,
                 "start": None, "end": None, "head": False, "type": None, "dtrs": [t]}
        for udx in (False, True):
            cases.append({"k": "format", "t": t, "indent": rng.choice([None, 0, 1, 2, 4]), "udx": udx})
            cases.append({"k": "parse", "t": t, "indent": rng.choice([None, 1, 3]), "udx": udx})
        cases.append({"k": "dict", "t": t})
        cases.append({"k": "nav", "t": t})
    # a head mark or a type on the root node itself (oracle only; see F35)
    leaf = {"id": 1, "entity": "ent", "score": 0.5, "start": 0, "end": 1, "head": False, "type": None,
            "dtrs": [{"form": "a", "tokens": []}]}
    for head, typ in ((True, None), (False, "rt"), (True, "rt")):
        cases.append({"k": "rootmark", "t": {"id": None, "entity": "root", "score": None, "start": None, "end": None,
                                             "head": head, "type": typ, "dtrs": [leaf]}})
    return cases


def _depth(t):
    return 1 + max([_depth(d) for d in t.get("dtrs", [])] or [0])


def nontrivial(c):
    return _depth(c["t"]) >= 3 or c["t"].get("head") or c["t"].get("type") is not None


# ------------------------------------------------------------------ implementation side

def _build(t, top=True):
    from delphin import derivation as D
    if "form" in t:
        return D.UDFTerminal(t["form"], tokens=[D.UDFToken(i, s) for i, s in t["tokens"]])
    cls = D.Derivation if top else D.UDFNode
    dtrs = [_build(d, False) for d in t["dtrs"]]
    n = cls(t["id"], t["entity"], score=t["score"], start=t["start"], end=t["end"],
            daughters=dtrs, head=(True if t["head"] else None), type=t["type"])
    for x in dtrs:
        x._parent = n     # the constructors take the parent as an argument; set it after the fact
    return n


def _g(x):
    return "%g" % x


def _extract(n):
    from delphin import derivation as D
    if isinstance(n, D.UDFTerminal):
        return {"form": n.form, "tokens": [[tk.id, tk.tfs] for tk in n.tokens]}
    return {"id": n.id, "entity": n.entity, "score": None if n.id is None else _g(n.score),
            "start": n.start, "end": n.end, "head": bool(n._head), "type": n.type,
            "dtrs": [_extract(d) for d in n.daughters]}


def _want(t):
    """what a tree must look like, from the generator's description (not through the constructors)"""
    if "form" in t:
        return {"form": t["form"], "tokens": [list(x) for x in t["tokens"]]}
    root = t["id"] is None
    dflt = None if root else -1
    return {"id": t["id"], "entity": t["entity"],
            "score": None if root else _g(-1.0 if t["score"] is None else float(t["score"])),
            "start": dflt if t["start"] is None else t["start"], "end": dflt if t["end"] is None else t["end"],
            "head": bool(t["head"]), "type": t["type"], "dtrs": [_want(d) for d in t["dtrs"]]}


def _key(n):
    from delphin import derivation as D
    if isinstance(n, D.UDFTerminal):
        return [None, n.form]
    return [n.id, n.entity]


def observe(c):
    from delphin import derivation as D
    d = _build(c["t"])
    k = c["k"]
    if k == "rootmark":
        return {"text": d.to_udx(indent=None)}
    if k == "format":
        return {"text": d.to_udx(indent=c["indent"]) if c["udx"] else d.to_udf(indent=c["indent"])}
    if k == "parse":
        text = d.to_udx(indent=c["indent"]) if c["udx"] else d.to_udf(indent=c["indent"])
        try:
            return {"tree": _extract(D.from_string(text))}
        except Exception as e:
            return {"exc": type(e).__name__}
    if k == "dict":
        return {"tree": _extract(D.from_dict(d.to_dict()))}
    return {"terms": [_key(n) for n in d.terminals()], "pre": [_key(n) for n in d.preterminals()],
            "inter": [_key(n) for n in d.internals()]}


def oracle(c):
    from delphin import derivation as D
    d = _build(c["t"])
    if c["k"] in ("format", "parse"):
        for indent in (None, 0, 1, 2):
            for udx in (False, True):
                text = d.to_udx(indent=indent) if udx else d.to_udf(indent=indent)
                p = D.from_string(text)
                again = p.to_udx(indent=indent) if udx else p.to_udf(indent=indent)
                if again != text:
                    return "re-serialising the parsed %s text differs (indent=%r)" % ("UDX" if udx else "UDF", indent)
                want = _want(c["t"])
                got = _extract(p)
                if not udx:
                    _strip(want)
                if got != want:
                    return "the parsed %s tree differs from the original" % ("UDX" if udx else "UDF")
    if c["k"] == "rootmark":
        text = d.to_udx(indent=None)
        try:
            p = D.from_string(text)
        except Exception as e:
            return "the UDX text %r of a derivation whose root carries a head mark or a type cannot be parsed (%s)" % (
                text, type(e).__name__)
        if _extract(p) != _want(c["t"]) or p.to_udx(indent=None) != text:
            return "a head mark or type on the root node is lost: %r parses to entity %r, type %r" % (
                text, p.entity, p.type)
        e = D.from_dict(d.to_dict())
        if _extract(e) != _want(c["t"]):
            return "a head mark or type on the root node is lost by to_dict/from_dict"
        return None
    if c["k"] == "dict":
        e = D.from_dict(d.to_dict())
        if e != d or e.to_dict() != d.to_dict() or _extract(e) != _want(c["t"]):
            return "from_dict(to_dict(d)) differs from d"
    if c["k"] == "nav":
        nodes = []

        def walk(n):
            if isinstance(n, D.UDFTerminal):
                return
            nodes.append(n)
            for x in n.daughters:
                walk(x)
        walk(d)
        pre, inter = d.preterminals(), d.internals()
        if sorted(map(id, nodes)) != sorted(map(id, pre + inter)):
            return "preterminals and internals do not partition the nonterminal nodes"
        terms = d.terminals()
        if [id(t) for p in pre for t in p.daughters] != [id(t) for t in terms]:
            return "terminals are not the daughters of the preterminals"
        # however the tree was built: parsed from text, or rebuilt from its dictionary form
        for how, p in (("parsed", D.from_string(d.to_udx())), ("rebuilt from its dictionary", D.from_dict(d.to_dict()))):
            for n in _all(p):
                for x in getattr(n, "daughters", []):
                    if x.parent is None or not any(y is x for y in x.parent.daughters):
                        return "in the tree %s, the parent (%r) of a daughter of node %r does not list it as a daughter" % (
                            how, getattr(x.parent, "entity", x.parent), getattr(n, "entity", None))
                    if x.is_root():
                        return "a non-top node is a root"
    return None


def _all(n):
    yield n
    for x in getattr(n, "daughters", []):
        yield from _all(x)


def _strip(t):
    if "form" in t:
        return
    t["head"] = False
    t["type"] = None
    for d in t["dtrs"]:
        _strip(d)


def known_match(case, failure, known):
    if case.get("k") == "rootmark" and isinstance(failure, str) and "root" in failure and \
            case["t"]["id"] is None and (case["t"]["head"] or case["t"]["type"] is not None):
        for e in known:
            if e["id"] == "F35":
                return "F35"
    return None


# ------------------------------------------------------------------ Coq side

def _score_text(t):
    if t["id"] is None:
        return ""
    return _g(-1.0 if t["score"] is None else float(t["score"]))


def _tree(t, observed=False):
    if "form" in t:
        return app("TTerm", cstr(t["form"]),
                   clist(t["tokens"], lambda tk: "(%s, %s)" % (cZ(tk[0]), cstr(tk[1]))))
    if observed:
        score = t["score"] or ""
        start = t["start"] if t["start"] is not None else 0
        end = t["end"] if t["end"] is not None else 0
    else:
        score = _score_text(t)
        start = 0 if t["id"] is None else (-1 if t["start"] is None else t["start"])
        end = 0 if t["id"] is None else (-1 if t["end"] is None else t["end"])
    return app("TNode", copt(t["id"], cZ), cstr(t["entity"]), cstr(score), cZ(start), cZ(end),
               cbool(bool(t["head"])), copt(t["type"], cstr),
               clist(t["dtrs"], lambda d: _tree(d, observed)))


def _keys(l):
    return clist(l, lambda k: "(%s, %s)" % (copt(k[0], cZ), cstr(k[1])))


def coq_case(c, o):
    if c["k"] == "rootmark":
        return None          # decided by the oracle
    if "exc" in o:
        raise ValueError("exception " + o["exc"])
    k = c["k"]
    if k == "format":
        return app("CFormat", _tree(c["t"]), copt(c["indent"], cnat), cbool(c["udx"]), cstr(o["text"]))
    if k == "parse":
        return app("CParse", _tree(c["t"]), cbool(c["udx"]), _tree(o["tree"], True))
    if k == "dict":
        return app("CDict", _tree(c["t"]), _tree(o["tree"], True))
    return app("CNav", _tree(c["t"]), _keys(o["terms"]), _keys(o["pre"]), _keys(o["inter"]))
