"""C06 — MRS isomorphism (delphin.mrs.is_isomorphic / compare_bags)."""
import copy
import itertools

from harness.coqlit import cstr, copt, clist, app, cbool, cnat
from harness.props import mrs_common as mc

ID = "C06"
COQ_TARGETS = ["Props/C06.vo", "Corr/C06.vo"]
TIE_A = []
CASE_TIMEOUT = 20
RULE = ("pairs of MRSs: a generated well-formed (or mildly ill-formed: self-arguments, mutual arguments) MRS "
        "against (a) a consistently renamed copy with shuffled predications/constraints, (b) every kind of "
        "single-point mutant (predicate, one argument target incl. the intrinsic/bound variable, role, constant, one property value, one handle "
        "constraint, added individual constraint), (c) unrelated structures; with properties compared or "
        "ignored; bags of such structures for compare_bags. The oracle is an exhaustive search for a "
        "structure-preserving bijection (<= 6 predications). Non-trivial = both structures have >= 2 "
        "predications; distinct = canonical JSON.")
EXHAUSTIVE = {"quick": False, "thorough": False}
EXPLANATION = ("Proved: the bag partition and the self-comparison law for any matcher; for the VF2 search, that "
               "a returned mapping covers the second graph and consists of feasible pairs with equal labels, "
               "self-loop data, degree and edge consistency against older pairs; and completeness of the search: "
               "on isomorphic well-formed (augmented) graphs it always returns a mapping whose domain is the node "
               "set of the first graph, whatever the candidate order and pruning (C06_vf2_complete), hence "
               "reflexivity. Soundness at the level of the isographs themselves (C06_vf2_sound): the closure under inverse "
               "edges is characterised by look-ups, its data decode uniquely, and so a returned mapping is one-to-one, "
               "label preserving and, for any two of its pairs, the directed edge between them carries the same data in "
               "both isographs or is absent in both - under two decidable hypotheses (well-formed isographs, edge data "
               "without the closure's own marks) that are evaluated on every case of the run.")
ASSUMPTIONS = [
    "predicate.normalize (quotes, _rel suffix, letter case) is applied by the harness before a structure is "
    "given to the model; other spellings of the same predicates are generated and must not change the verdict",
    "structures without parallel constraints (an hcons/icons edge may overwrite an argument edge in the graph)",
    "top and index are not part of the compared structure (as in the implementation and the property text)",
]
TRUSTED = []
LEVEL_TEXT = ("Proof (Coq, no axioms) of the bag laws (unique-test + shared = |test|, shared + unique-gold = "
              "|gold| for any matcher; a bag against itself under a reflexive matcher is entirely shared) and of "
              "soundness and of completeness of the modelled VF2 search (see explanation). The verdict of is_isomorphic and the "
              "counts of compare_bags are tied to delphin by kernel-checked correspondence; exactness (sound and "
              "complete) is decided on every generated pair by an independent exhaustive bijection oracle.")
LEVEL_NOTE = ("Partial: soundness and completeness are theorems about the search on isographs; the size pre-checks of "
              "is_isomorphic and the reading of an isograph isomorphism as an MRS isomorphism are tied by correspondence "
              "and the exhaustive bijection oracle. "
              "Three genuine defects (F6 self loops, F22 two-way links, F23 properties skipped on EPs with a "
              "constant) were repaired by fix: commits; the model follows the repaired code.")
TECHNIQUE = "Coq proof (bag laws, VF2 soundness and completeness on isographs) + kernel-checked correspondence + exhaustive bijection oracle"
DESIGN_REF = "DESIGN.md section 6, C06"


def _rename(rng, m):
    vars_ = []

    def add(v):
        if v is not None and v not in vars_:
            vars_.append(v)
    add(m["top"])
    add(m["index"])
    for r in m["rels"]:
        add(r["label"])
        for role, v in r["args"]:
            if role != "CARG":
                add(v)
    for a, _, b in m["hcons"] + m["icons"]:
        add(a)
        add(b)
    for k, _ in m["vars"]:
        add(k)
    nums = rng.sample(range(100, 400), len(vars_))
    f = {v: "%s%d" % (v.rstrip("0123456789"), n) for v, n in zip(vars_, nums)}
    g = lambda v: f[v] if v is not None else None
    m2 = {"top": g(m["top"]), "index": g(m["index"]),
          "rels": [{"pred": r["pred"], "label": f[r["label"]],
                    "args": [[role, (v if role == "CARG" else f[v])] for role, v in r["args"]]}
                   for r in m["rels"]],
          "hcons": [[f[a], rel, f[b]] for a, rel, b in m["hcons"]],
          "icons": [[f[a], rel, f[b]] for a, rel, b in m["icons"]],
          "vars": [[f[k], list(v)] for k, v in m["vars"]]}
    # other spellings of the same predicates (quotes, the _rel suffix, letter case)
    if rng.random() < 0.25:
        for r in m2["rels"]:
            k = rng.random()
            if k < 0.3:
                r["pred"] = r["pred"] + "_rel"
            elif k < 0.5:
                r["pred"] = r["pred"].upper()
            elif k < 0.65:
                r["pred"] = '"%s_rel"' % r["pred"]
    rng.shuffle(m2["rels"])
    rng.shuffle(m2["hcons"])
    rng.shuffle(m2["vars"])
    return m2


def _norm_pred(p):
    """the conventional form of a predicate symbol: no quotes, no _rel suffix, lower case"""
    if len(p) >= 2 and p[0] == p[-1] == '"':
        p = p[1:-1]
    p = p.lstrip("'")
    if p.lower().endswith("_rel"):
        p = p[:-4]
    return p.lower()


def _norm_preds(m):
    m2 = dict(m)
    m2["rels"] = [dict(r, pred=_norm_pred(r["pred"])) for r in m["rels"]]
    return m2


def _mutants(rng, m):
    out = []
    rels = m["rels"]
    if not rels:
        return out
    for kind in ("pred", "arg", "arg0", "arg0q", "role", "carg", "prop", "hcons", "icons", "selfarg", "mutual"):
        m2 = copy.deepcopy(m)
        r = rng.choice(m2["rels"])
        if kind == "pred":
            r["pred"] = r["pred"] + "x"
        elif kind == "arg":
            cands = [a for a in r["args"] if a[0] not in ("ARG0", "CARG")]
            if not cands:
                continue
            a = rng.choice(cands)
            pool = [v for rr in m2["rels"] for role, v in rr["args"]
                    if role != "CARG" and v[0] == a[1][0] and v != a[1]]
            if not pool:
                continue
            a[1] = rng.choice(pool)
        elif kind in ("arg0", "arg0q"):
            # retarget an intrinsic/bound variable (for arg0q: of a quantifier) to another
            # variable of the same sort that stays in use elsewhere
            rs = [rr for rr in m2["rels"] if kind == "arg0" or any(a[0] == "RSTR" for a in rr["args"])]
            if not rs:
                continue
            r = rng.choice(rs)
            a = [a for a in r["args"] if a[0] == "ARG0"][0]
            pool = [v for rr in m2["rels"] if rr is not r for role, v in rr["args"]
                    if role != "CARG" and v[0] == a[1][0] and v != a[1]]
            if not pool:
                continue
            a[1] = rng.choice(pool)
        elif kind == "role":
            cands = [a for a in r["args"] if a[0] not in ("ARG0", "CARG", "RSTR", "BODY")]
            if not cands:
                continue
            rng.choice(cands)[0] = "ARG9"
        elif kind == "carg":
            cands = [a for rr in m2["rels"] for a in rr["args"] if a[0] == "CARG"]
            if not cands:
                continue
            rng.choice(cands)[1] = "Other"
        elif kind == "prop":
            cands = [v for _, v in m2["vars"] if v]
            if not cands:
                continue
            rng.choice(rng.choice(cands))[1] = "zzz"
        elif kind == "hcons":
            labels = sorted(set(rr["label"] for rr in m2["rels"]))
            if not m2["hcons"] or len(labels) < 2:
                continue
            h = rng.choice(m2["hcons"])
            h[2] = rng.choice([l for l in labels if l != h[2]])
        elif kind == "icons":
            ivs = [dict(map(tuple, rr["args"]))["ARG0"] for rr in m2["rels"]]
            m2["icons"].append([rng.choice(ivs), "topic", rng.choice(ivs)])
        elif kind == "selfarg":
            iv = dict(map(tuple, r["args"]))["ARG0"]
            r["args"].append(["ARG7", iv])
            m3 = copy.deepcopy(m2)
            for rr in m3["rels"]:
                for a in rr["args"]:
                    if a[0] == "ARG7":
                        a[0] = "ARG8"
            out.append(("selfarg-pair", m2, m3))
            continue
        elif kind == "mutual":
            if len(m2["rels"]) < 2:
                continue
            r1, r2 = rng.sample(m2["rels"], 2)
            iv1 = dict(map(tuple, r1["args"]))["ARG0"]
            iv2 = dict(map(tuple, r2["args"]))["ARG0"]
            r1["args"].append(["ARG5", iv2])
            r2["args"].append(["ARG5", iv1])
            m3 = copy.deepcopy(m2)
            for a in m3["rels"][m2["rels"].index(r2)]["args"]:
                if a[0] == "ARG5":
                    a[0] = "ARG6"
            out.append(("mutual-pair", m2, m3))
            continue
        out.append((kind, m, m2))
    return out


def _symmetric_families():
    fams = []
    # neg over neg over ... over a verb (chains of identical scopal predications)
    for depth in (2, 3, 4):
        rels = [{"pred": "_rain_v_1", "label": "h1", "args": [["ARG0", "e2"]]}]
        hcons = []
        cur = "h1"
        for i in range(depth):
            lbl, hole, ev = "h%d" % (10 + 3 * i), "h%d" % (11 + 3 * i), "e%d" % (12 + 3 * i)
            rels.append({"pred": "neg", "label": lbl, "args": [["ARG0", ev], ["ARG1", hole]]})
            hcons.append([hole, "qeq", cur])
            cur = lbl
        hcons.append(["h0", "qeq", cur])
        fams.append({"top": "h0", "index": "e2", "rels": rels, "hcons": hcons, "icons": [], "vars": []})
    # coordination of identical conjuncts: k copies of "the dog barks" under and_c chains
    for k in (2, 3):
        rels, hcons, vars_ = [], [], []
        evs = []
        for i in range(k):
            b = 20 + 10 * i
            x, e = "x%d" % b, "e%d" % (b + 1)
            rels.append({"pred": "_the_q", "label": "h%d" % (b + 2),
                         "args": [["ARG0", x], ["RSTR", "h%d" % (b + 3)], ["BODY", "h%d" % (b + 4)]]})
            rels.append({"pred": "_dog_n_1", "label": "h%d" % (b + 5), "args": [["ARG0", x]]})
            rels.append({"pred": "_bark_v_1", "label": "h%d" % (b + 6), "args": [["ARG0", e], ["ARG1", x]]})
            hcons.append(["h%d" % (b + 3), "qeq", "h%d" % (b + 5)])
            vars_.append([x, [["NUM", "sg"]]])
            evs.append((e, "h%d" % (b + 6)))
        prev_e, prev_l = evs[0]
        for i in range(1, k):
            c, l = "e%d" % (90 + i), "h%d" % (95 + i)
            rels.append({"pred": "_and_c", "label": l,
                         "args": [["ARG0", c], ["L-INDEX", prev_e], ["R-INDEX", evs[i][0]],
                                  ["L-HNDL", prev_l], ["R-HNDL", evs[i][1]]]})
            prev_e, prev_l = c, l
        hcons.append(["h0", "qeq", prev_l])
        fams.append({"top": "h0", "index": prev_e, "rels": rels, "hcons": hcons, "icons": [], "vars": vars_})
    return fams


def gen(rng, tier):
    cases = []
    n = 120 if tier == "quick" else 1500
    for _ in range(n):
        base = mc.gen_wf_mrs(rng, max_nouns=2, shuffle_vars=rng.random() < 0.5)
        if len(base["rels"]) > 6:
            continue
        props = rng.random() < 0.7
        cases.append({"k": "iso", "m1": base, "m2": _rename(rng, base), "props": props, "kind": "renamed"})
        cases.append({"k": "iso", "m1": base, "m2": base, "props": props, "kind": "same"})
        for kind, a, b in _mutants(rng, base):
            b2 = _rename(rng, b) if rng.random() < 0.5 else b
            cases.append({"k": "iso", "m1": a, "m2": b2, "props": rng.random() < 0.8, "kind": kind})
            if rng.random() < 0.3:
                cases.append({"k": "iso", "m1": b2, "m2": a, "props": True, "kind": kind + "-sym"})
        other = mc.gen_wf_mrs(rng, max_nouns=2)
        cases.append({"k": "iso", "m1": base, "m2": other, "props": props, "kind": "other"})
    # near-symmetric families: repeated, locally indistinguishable substructures that force
    # the matcher to backtrack several levels; many renamings of each
    for fam in _symmetric_families():
        for _ in range(8 if tier == "quick" else 40):
            for props in (True, False):
                cases.append({"k": "iso", "m1": fam, "m2": _rename(rng, fam), "props": props,
                              "kind": "symmetric-renamed"})
                cases.append({"k": "iso", "m1": _rename(rng, fam), "m2": _rename(rng, fam), "props": props,
                              "kind": "symmetric-renamed2"})
    # two roles of one predication with the same target (the isograph merges them into one edge
    # label): renamed copies with the roles listed in another order must stay isomorphic, moving
    # either role to another variable must not (choices from a generator of their own)
    import copy
    import random
    lrng = random.Random("c06-shared-target-" + tier)
    made = 0
    while made < (40 if tier == "quick" else 400):
        base = mc.gen_wf_mrs(lrng, max_nouns=2, shuffle_vars=lrng.random() < 0.5)
        if len(base["rels"]) > 5:
            continue
        cands = [(i, a) for i, r in enumerate(base["rels"]) for a in r["args"]
                 if a[0] not in ("ARG0", "CARG", "RSTR", "BODY") and a[1][0] in "xei"]
        if not cands:
            continue
        i, a = lrng.choice(cands)
        used = set(x[0] for x in base["rels"][i]["args"])
        free = [r for r in ("ARG1", "ARG2", "ARG3", "ARG4") if r not in used]
        if not free:
            continue
        made += 1
        role2 = lrng.choice(free)
        m = copy.deepcopy(base)
        m["rels"][i]["args"].append([role2, a[1]])
        m_rev = copy.deepcopy(m)
        m_rev["rels"][i]["args"].reverse()
        props = lrng.random() < 0.7
        cases.append({"k": "iso", "m1": m, "m2": _rename(lrng, m_rev), "props": props, "kind": "shared-target-renamed"})
        cases.append({"k": "iso", "m1": m, "m2": m_rev, "props": props, "kind": "shared-target-reordered"})
        others = sorted(set(v for v, _ in m["vars"] if v[0] == a[1][0] and v != a[1]))
        if others:
            for which in (a[0], role2):
                m2 = copy.deepcopy(m)
                for x in m2["rels"][i]["args"]:
                    if x[0] == which:
                        x[1] = lrng.choice(others)
                b = _rename(lrng, m2) if lrng.random() < 0.5 else m2
                cases.append({"k": "iso", "m1": m, "m2": b, "props": props, "kind": "shared-target-moved"})
                cases.append({"k": "iso", "m1": b, "m2": m, "props": props, "kind": "shared-target-moved-sym"})
    for _ in range(n // 6):
        pool = [mc.gen_wf_mrs(rng, max_nouns=1) for _ in range(3)]
        pool = [p for p in pool if len(p["rels"]) <= 5]
        if not pool:
            continue
        pool += [_rename(rng, p) for p in pool]
        test = [rng.randrange(len(pool)) for _ in range(rng.randrange(0, 5))]
        gold = [rng.randrange(len(pool)) for _ in range(rng.randrange(0, 5))]
        cases.append({"k": "bags", "ms": pool, "test": test, "gold": gold, "props": True})
        cases.append({"k": "bags", "ms": pool, "test": test, "gold": list(reversed(test)), "props": True})
    return cases


def nontrivial(c):
    if c["k"] == "iso":
        return len(c["m1"]["rels"]) >= 2 and c["kind"] not in ("same",)
    return len(c["test"]) + len(c["gold"]) >= 2


def observe(c):
    from delphin import mrs
    if c["k"] == "iso":
        return {"v": bool(mrs.is_isomorphic(mc.build_mrs(c["m1"]), mc.build_mrs(c["m2"]),
                                            properties=c["props"]))}
    ms = [mc.build_mrs(m) for m in c["ms"]]
    u, s, g = mrs.compare_bags([ms[i] for i in c["test"]], [ms[i] for i in c["gold"]],
                               properties=c["props"])
    return {"u": u, "s": s, "g": g}


def _brute_iso(m1, m2, props):
    """exhaustive search for a structure-preserving bijection"""
    r1, r2 = m1["rels"], m2["rels"]
    if len(r1) != len(r2) or len(m1["hcons"]) != len(m2["hcons"]) or len(m1["icons"]) != len(m2["icons"]):
        return False
    v1 = dict((k, dict(map(tuple, v))) for k, v in mc.filled_vars(m1))
    v2 = dict((k, dict(map(tuple, v))) for k, v in mc.filled_vars(m2))
    if len(v1) != len(v2):
        return False

    def ep_sig(r):
        d = dict(map(tuple, r["args"]))
        return (_norm_pred(r["pred"]), d.get("CARG"), tuple(sorted(k for k in d if k != "CARG")))

    def extend(f, inv, a, b):
        if a in f:
            return f[a] == b
        if b in inv:
            return False
        f[a] = b
        inv[b] = a
        return True

    def norm_props(p):
        return dict((k.upper(), v.lower()) for k, v in p.items())

    def cons_match(c1, c2, f, inv):
        # match constraint lists as multisets under f, extending f where needed
        if not c1:
            return True
        a = c1[0]
        for j, b in enumerate(c2):
            if a[1] != b[1]:
                continue
            f2, inv2 = dict(f), dict(inv)
            if extend(f2, inv2, a[0], b[0]) and extend(f2, inv2, a[2], b[2]):
                if cons_match(c1[1:], c2[:j] + c2[j + 1:], f2, inv2):
                    f.clear(); f.update(f2); inv.clear(); inv.update(inv2)
                    return True
        return False

    def go(i, used, f, inv):
        if i == len(r1):
            f2, inv2 = dict(f), dict(inv)
            if not cons_match(list(m1["hcons"]), list(m2["hcons"]), f2, inv2):
                return False
            return cons_match(list(m1["icons"]), list(m2["icons"]), f2, inv2)
        a = r1[i]
        da = dict(map(tuple, a["args"]))
        for j, b in enumerate(r2):
            if j in used or ep_sig(a) != ep_sig(b):
                continue
            db = dict(map(tuple, b["args"]))
            f2, inv2 = dict(f), dict(inv)
            ok = extend(f2, inv2, a["label"], b["label"])
            for role in da:
                if role == "CARG" or not ok:
                    continue
                ok = extend(f2, inv2, da[role], db[role])
            if ok and props:
                pa = norm_props(v1.get(da.get("ARG0"), {}))
                pb = norm_props(v2.get(db.get("ARG0"), {}))
                ok = pa == pb
            if ok and go(i + 1, used | {j}, f2, inv2):
                return True
        return False
    return go(0, frozenset(), {}, {})


def oracle(c):
    from delphin import mrs
    if c["k"] == "iso":
        a, b = mc.build_mrs(c["m1"]), mc.build_mrs(c["m2"])
        got = mrs.is_isomorphic(a, b, properties=c["props"])
        want = _brute_iso(c["m1"], c["m2"], c["props"])
        if got != want:
            return ("is_isomorphic = %r but the exhaustive search for a structure-preserving bijection says %r "
                    "(%s)" % (got, want, c["kind"]))
        if mrs.is_isomorphic(b, a, properties=c["props"]) != got:
            return "is_isomorphic is not symmetric"
        if not mrs.is_isomorphic(a, a, properties=c["props"]):
            return "is_isomorphic is not reflexive"
        return None
    ms = [mc.build_mrs(m) for m in c["ms"]]
    test = [ms[i] for i in c["test"]]
    gold = [ms[i] for i in c["gold"]]
    u, s, g = mrs.compare_bags(test, gold, properties=c["props"])
    if u + s != len(test) or s + g != len(gold):
        return "compare_bags counts (%d,%d,%d) do not partition bags of %d and %d" % (u, s, g, len(test), len(gold))
    if sorted(c["test"]) == sorted(c["gold"]) and (u, g) != (0, 0):
        return "a bag compared with a reordering of itself is not entirely shared"
    return None


def known_match(case, failure, known):
    return None


def coq_case(c, o):
    if "exc" in o:
        raise ValueError("exception")
    if c["k"] == "iso":
        return app("CIso", mc.coq_mrs(_norm_preds(c["m1"])), mc.coq_mrs(_norm_preds(c["m2"])), cbool(c["props"]),
                   cbool(o["v"]))
    return app("CBags", clist(c["ms"], lambda m: mc.coq_mrs(_norm_preds(m))), clist(c["test"], cnat), clist(c["gold"], cnat),
               cbool(c["props"]), cnat(o["u"]), cnat(o["s"]), cnat(o["g"]))
