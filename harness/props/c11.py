"""C11 — TSQL select (delphin.tsql) equals relational semantics; condition grammar."""
import re

from harness.coqlit import cstr, cZ, copt, clist, app, cbool, cnat

ID = "C11"
COQ_TARGETS = ["Props/C11.vo", "Corr/C11.vo"]
TIE_A = []
CASE_TIMEOUT = 20
RULE = ("(a) condition trees from the grammar (and/or/not nested to depth 3, all comparison operators, integer and "
        "string operands) printed to text and parsed back, plus random token sequences incl. ill-formed ones; "
        "(b) databases over item/parse/result/run-like schemas (tree-linked keys, extra columns, empty fields, "
        "missing and one-to-many matches, duplicate rows) with select queries: qualified and unqualified columns, "
        "'*', from lists, repeated where clauses, conditions over several relations incl. ones that need a "
        "pivot relation. Compared: parsed trees / syntax errors, and result rows (as a list for one relation, as "
        "a multiset otherwise) or the error. Non-trivial = a condition with a boolean connective or a query "
        "joining >= 2 relations; distinct = canonical JSON.")
EXHAUSTIVE = {"quick": False, "thorough": False}
EXPLANATION = ("Theorems: the hash join equals the nested-loop join as lists; comparison operators never hold on an "
               "empty field (!~ does); parsing the printed token stream of any condition tree returns the tree. "
               "Lexing (characters to tokens), planning and the relational composition are tied by correspondence.")
ASSUMPTIONS = [
    "re.search for ~ and !~ is an oracle table computed with the real engine for the (pattern, value) pairs of the case",
    "date operands: the model's date literal carries the instant that tsdb.cast makes of the literal's text (the date "
    "reader is modelled and proved under C08); stored date fields are read by that model; float columns are outside "
    "the model",
    "identifiers do not start with a TSQL keyword (the lexer matches keywords as prefixes: `origin` lexes as or+igin)",
    "Python iterates a set when adding key columns of relations that have no projected or condition column; the "
    "model is exact when at most one such relation (a pivot) exists — the generator respects this",
    "join results for several relations are compared as multisets (the property fixes order only for one relation)",
]
TRUSTED = []
LEVEL_TEXT = ("Proof (Coq, no axioms): the hash join computes exactly the nested-loop inner join on the cast key "
              "columns, as lists (left order, then right order, multiplicities preserved); ==, !=, <, <=, >, >=, ~ are "
              "false and !~ true on an empty field; for every condition tree whose and/or nodes have at least two "
              "children, parsing the printed token stream returns that tree (token level), and several where clauses "
              "mean conjunction. Lexer, resolver, planner (incl. pivot search), join and evaluation are modelled and "
              "tied to delphin/tsql.py by kernel-checked correspondence over generated databases and queries.")
LEVEL_NOTE = ("The projection of `*` (C11_star_projection) and the composition project . filter . join of the evaluator (C11_select_is_project_filter_join) are theorems. Partial: character-level lexing and join planning "
              "are covered by correspondence and the independent relational oracle, not by theorems; regex matching is "
              "an oracle; dates/floats not modelled.")
TECHNIQUE = "Coq proof (join = nested loop, None rules, token-level parse-of-print) + kernel-checked correspondence"
DESIGN_REF = "DESIGN.md section 6, C11"

OPS = ["==", "!=", "<", "<=", ">", ">=", "~", "!~"]
OPC = {"==": "OEq", "!=": "ONe", "<": "OLt", "<=": "OLe", ">": "OGt", ">=": "OGe", "~": "ORe", "!~": "ONre"}

SCHEMA = [
    ["item", [["i-id", ":integer", True], ["i-input", ":string", False], ["i-wf", ":integer", False],
              ["i-length", ":integer", False]]],
    ["run", [["run-id", ":integer", True], ["r-comment", ":string", False]]],
    ["parse", [["parse-id", ":integer", True], ["run-id", ":integer", True], ["i-id", ":integer", True],
               ["readings", ":integer", False]]],
    ["result", [["parse-id", ":integer", True], ["result-id", ":integer", False], ["mrs", ":string", False]]],
]
COLS = {"i-id": ":integer", "i-input": ":string", "i-wf": ":integer", "i-length": ":integer",
        "run-id": ":integer", "r-comment": ":string", "parse-id": ":integer", "readings": ":integer",
        "result-id": ":integer", "mrs": ":string"}
STRS = ["it rains", "dogs bark", "abc", "", "x y"]
PATS = ["a", "^d", "s$", "[xy]", "rain|bark", "b+c", "."]


def _gen_db(rng):
    db = []
    n_items = rng.randrange(0, 5)
    items = []
    for i in range(n_items):
        iid = str(i * 10) if rng.random() < 0.9 else rng.choice(["", "10"])
        items.append([iid, rng.choice(STRS) or None, rng.choice(["1", "0", None]), rng.choice(["2", "3", None, "5"])])
    runs = [[str(r), rng.choice(["first", None])] for r in range(rng.randrange(0, 3))]
    parses = []
    pid = 0
    for it in items:
        for _ in range(rng.choice([0, 1, 1, 2])):
            parses.append([str(pid), rng.choice(["0", "1", None]), it[0], rng.choice(["0", "1", "2", None])])
            pid += 1
    if rng.random() < 0.3:
        parses.append([str(pid), "0", "999", "1"])   # no matching item
    results = []
    for p in parses:
        for k in range(rng.choice([0, 1, 2])):
            results.append([p[0], str(k), rng.choice(["[ LTOP: h0 ]", "m", None])])
    if rng.random() < 0.3 and results:
        results.append(list(results[0]))            # duplicate row
    # relations are not always stored in the order of the rows they link to
    if rng.random() < 0.3:
        for rel in (items, parses, results):
            if rng.random() < 0.6:
                rng.shuffle(rel)
    rows = {"item": items, "run": runs, "parse": parses, "result": results}
    for name, fields in SCHEMA:
        db.append({"name": name, "fields": fields, "rows": rows[name]})
    return db


def _gen_cmp(rng, cols):
    col = rng.choice(cols)
    bare = col.split(".")[-1]
    dt = COLS[bare]
    if dt == ":integer":
        if rng.random() < 0.08:
            return ["cmp", "==", col, "abc"]              # type mismatch
        return ["cmp", rng.choice(OPS[:6]), col, rng.choice([0, 1, 2, 10, 20, -1, 999])]
    if rng.random() < 0.08:
        return ["cmp", "==", col, 3]                      # type mismatch
    op = rng.choice(["==", "!=", "~", "!~"])
    if op in ("~", "!~"):
        return ["cmp", op, col, rng.choice(PATS)]
    return ["cmp", op, col, rng.choice([s for s in STRS if s] + ["m"])]


# ---- date operands (oracle only: the model has no dates) ----
D_MONS = ["jan", "feb", "mar", "apr", "may", "jun", "jul", "aug", "sep", "oct", "nov", "dec"]
D_POOL = [[2018, 1, 15, 0, 0, 0], [2018, 1, 15, 10, 20, 0], [2018, 1, 15, 10, 20, 30], [2018, 1, 1, 0, 0, 0],
          [1999, 12, 31, 23, 59, 59], [2000, 2, 29, 0, 0, 0], [1993, 6, 1, 0, 0, 0], [2031, 11, 9, 7, 5, 0]]


def _q_spellings(inst):
    """the ways the query grammar lets one write an instant: YYYY-MM[-DD] or [DD-]MM-YY[YY], the month as a
    number or a lower-case abbreviation, and an optional time (HH:MM[:SS]) in parentheses or HH:MM:SS after a blank"""
    y, mo, d, h, mi, sec = inst
    mon = D_MONS[mo - 1]
    dates = ["%d-%d-%d" % (y, mo, d), "%d-%02d-%02d" % (y, mo, d), "%d-%s-%d" % (y, mon, d),
             "%d-%d-%d" % (d, mo, y), "%02d-%02d-%d" % (d, mo, y), "%d-%s-%d" % (d, mon, y)]
    if 1993 <= y <= 2092:
        dates += ["%d-%d-%02d" % (d, mo, y % 100), "%d-%s-%02d" % (d, mon, y % 100)]
    if d == 1:
        dates += ["%d-%d" % (y, mo), "%d-%s" % (y, mon), "%s-%d" % (mon, y), "%d-%d" % (mo, y)]
    times = [""] if (h, mi, sec) == (0, 0, 0) else []
    times += [" %02d:%02d:%02d" % (h, mi, sec), " (%02d:%02d:%02d)" % (h, mi, sec), "(%02d:%02d:%02d)" % (h, mi, sec)]
    if sec == 0:
        times += [" (%02d:%02d)" % (h, mi), "(%02d:%02d)" % (h, mi)]
    return [a + b for a in dates for b in times]


def _f_spellings(inst):
    """spellings of an instant in a stored field"""
    y, mo, d, h, mi, sec = inst
    mon = D_MONS[mo - 1]
    dates = ["%d-%d-%d" % (d, mo, y), "%d-%s-%d" % (d, mon, y), "%d-%s-%d" % (d, mon.upper(), y),
             "%d-%02d-%02d" % (y, mo, d)]
    times = [""] if (h, mi, sec) == (0, 0, 0) else []
    times += [" %02d:%02d:%02d" % (h, mi, sec), " (%02d:%02d:%02d)" % (h, mi, sec)]
    return [a + b for a in dates for b in times]


def _gen_dcmp(rng):
    """(tree over instants, query text)"""
    r = rng.random()
    if r < 0.6:
        op = rng.choice(OPS[:6])
        inst = rng.choice(D_POOL)
        return ["cmp", op, "i-date", inst], "i-date %s %s" % (op, rng.choice(_q_spellings(inst)))
    if r < 0.8:
        op = rng.choice(OPS[:6])
        v = rng.choice([0, 10, 20, 30])
        return ["cmp", op, "i-id", v], "i-id %s %d" % (op, v)
    op = rng.choice(["==", "!=", "~", "!~"])
    v = rng.choice(["abc", "x y"]) if op in ("==", "!=") else rng.choice(["a", "^x", "c$"])
    return ["cmp", op, "i-input", v], 'i-input %s "%s"' % (op, v)


def _gen_dcond(rng, depth):
    r = rng.random()
    if depth <= 0 or r < 0.45:
        return _gen_dcmp(rng)
    if r < 0.85:
        op = "and" if r < 0.65 else "or"
        subs = [_gen_dcond(rng, depth - 1) for _ in range(rng.randrange(2, 4))]
        return [op, [t for t, _ in subs]], "(" + (" %s " % op).join(x for _, x in subs) + ")"
    t, x = _gen_dcond(rng, depth - 1)
    return ["not", t], "(not %s)" % x


_D15 = [2018, 1, 15, 0, 0, 0]
_D1 = [2018, 1, 1, 0, 0, 0]
D_MISMATCH = [('i-date == 3', ["cmp", "==", "i-date", 3]),
              ('i-date == "abc"', ["cmp", "==", "i-date", "abc"]),
              ('i-date < 3', ["cmp", "<", "i-date", 3]),
              ('i-id == 2018-1-15', ["cmp", "==", "i-id", _D15]),
              ('i-input == 2018-1-15', ["cmp", "==", "i-input", _D15]),
              ('i-id < 15-jan-2018', ["cmp", "<", "i-id", _D15]),
              ('i-input != jan-2018', ["cmp", "!=", "i-input", _D1]),
              ('i-id == 10 and i-date == "2018-1-15"',
               ["and", [["cmp", "==", "i-id", 10], ["cmp", "==", "i-date", "2018-1-15"]]]),
              ('not i-date == 20180115', ["not", ["cmp", "==", "i-date", 20180115]]),
              ('i-id >= 0 or i-input == 1-2018', ["or", [["cmp", ">=", "i-id", 0], ["cmp", "==", "i-input", _D1]]])]


def _gen_dselect(rng):
    rows = []
    for i in range(rng.randrange(0, 7)):
        inst = rng.choice(D_POOL + [None])
        rows.append([str(i * 10) if rng.random() < 0.9 else "", rng.choice(STRS),
                     inst, "" if inst is None else rng.choice(_f_spellings(inst))])
    rng.shuffle(rows)
    proj = rng.sample(["i-id", "i-input", "i-date"], rng.randrange(1, 4))
    if rng.random() < 0.15:
        text, tree = rng.choice(D_MISMATCH)
        return {"k": "dselect", "rows": rows, "proj": proj, "tree": tree, "text": text, "bad": True}
    t, x = _gen_dcond(rng, 2)
    return {"k": "dselect", "rows": rows, "proj": proj, "tree": t, "text": x, "bad": False}


def _gen_cond(rng, cols, depth):
    r = rng.random()
    if depth <= 0 or r < 0.4:
        return _gen_cmp(rng, cols)
    if r < 0.6:
        return ["and", [_gen_cond(rng, cols, depth - 1) for _ in range(rng.randrange(2, 4))]]
    if r < 0.8:
        return ["or", [_gen_cond(rng, cols, depth - 1) for _ in range(rng.randrange(2, 4))]]
    return ["not", _gen_cond(rng, cols, depth - 1)]


def _cond_text(c, ctx=0):
    if c[0] == "cmp":
        v = c[3]
        return "%s %s %s" % (c[2], c[1], ('"%s"' % v) if isinstance(v, str) else str(v))
    if c[0] == "not":
        return "(not %s)" % _cond_text(c[1], 0)
    if c[0] == "or":
        body = " or ".join(_cond_text(x, 1) for x in c[1])
        return body if ctx == 0 else "(" + body + ")"
    body = " and ".join(_cond_text(x, 2) for x in c[1])
    return body if ctx <= 1 else "(" + body + ")"


def _rand_tokens(rng):
    toks = []
    pool = ["i-id", "mrs", "==", "<", "~", "and", "or", "not", "(", ")", "3", '"x"', "where", "&&", "|", "!", "="]
    for _ in range(rng.randrange(1, 9)):
        toks.append(rng.choice(pool))
    return toks


def gen(rng, tier):
    cases = []
    n = 300 if tier == "quick" else 4000
    allcols = list(COLS) + ["item.i-id", "parse.i-id", "result.mrs", "parse.readings", "item.i-input"]
    for _ in range(n):
        c = _gen_cond(rng, allcols, 3)
        if not _has_mismatch(c):
            cases.append({"k": "printed", "c": c})
        cases.append({"k": "tokparse", "toks": ["where"] + _rand_tokens(rng)})
        # a valid sentence, mutated by deleting / duplicating / swapping one token
        toks = ("where " + _cond_text(_gen_cond(rng, allcols, 2))).replace("(", " ( ").replace(")", " ) ").split()
        toks = [t for t in toks]
        if len(toks) > 2 and rng.random() < 0.7:
            i = rng.randrange(1, len(toks))
            r = rng.random()
            if r < 0.35:
                del toks[i]
            elif r < 0.6:
                toks.insert(i, toks[i])
            elif r < 0.8 and i + 1 < len(toks):
                toks[i], toks[i + 1] = toks[i + 1], toks[i]
            else:
                toks.insert(i, rng.choice(["and", "or", "not", "(", ")", "where"]))
        if all(not (t.startswith('"') and not t.endswith('"')) and not (t.endswith('"') and not t.startswith('"'))
               for t in toks):
            cases.append({"k": "tokparse", "toks": toks})
    for _ in range(n // 3):
        t, x = _gen_dcond(rng, 2)
        cases.append({"k": "dprinted", "tree": t, "text": x})
        cases.append(_gen_dselect(rng))
    for _ in range(n):
        db = _gen_db(rng)
        shape = rng.random()
        if shape < 0.35:
            rel = rng.choice(["item", "parse", "result"])
            cols = [f[0] for name, fs in SCHEMA if name == rel for f in fs]
            proj = rng.sample(cols, rng.randrange(1, len(cols) + 1))
            if rng.random() < 0.3:
                proj = [rel + "." + p for p in proj]
            cond = _gen_cond(rng, cols, 2) if rng.random() < 0.8 else None
            q = {"proj": proj, "from": [rel] if rng.random() < 0.5 else [], "conds": [cond] if cond else []}
        elif shape < 0.5:
            rels = rng.choice([["item"], ["item", "parse"], ["parse", "result"], ["item", "parse", "result"],
                               # relations that share a key named apart in the from-list
                               ["item", "result", "parse"], ["parse", "result", "item"], ["item", "run", "parse"],
                               ["run", "item", "parse"], ["run", "item", "parse", "result"], ["parse", "item"],
                               ["result", "parse", "item"]])
            cols = [f[0] for name, fs in SCHEMA if name in rels for f in fs]
            cond = _gen_cond(rng, cols, 1) if rng.random() < 0.6 else None
            q = {"proj": ["*"], "from": rels, "conds": [cond] if cond else []}
        else:
            rels = rng.choice([["item", "parse"], ["parse", "result"], ["item", "result"],
                               ["item", "parse", "result"], ["run", "parse"], ["run", "item"]])
            cols = []
            for name, fs in SCHEMA:
                if name in rels:
                    cols += [f[0] for f in fs] + ["%s.%s" % (name, f[0]) for f in fs]
            # mention every relation at least once (projection), so planning is deterministic
            proj = []
            for name in rels:
                fs = [f[0] for n2, fl in SCHEMA if n2 == name for f in fl]
                proj.append("%s.%s" % (name, rng.choice(fs)))
            proj += rng.sample(cols, rng.randrange(0, 3))
            conds = [_gen_cond(rng, cols, 2) for _ in range(rng.choice([0, 1, 1, 2]))]
            q = {"proj": proj, "from": rels if rng.random() < 0.3 else [], "conds": conds}
        cases.append({"k": "select", "db": db, "q": q})
    return cases


def _has_mismatch(c):
    if c[0] == "cmp":
        bare = c[2].split(".")[-1]
        return (COLS[bare] == ":integer") != isinstance(c[3], int)
    if c[0] == "not":
        return _has_mismatch(c[1])
    return any(_has_mismatch(x) for x in c[1])


def nontrivial(c):
    if c["k"] in ("dprinted", "dselect"):
        return True
    if c["k"] == "printed":
        return c["c"][0] != "cmp"
    if c["k"] == "tokparse":
        return len(c["toks"]) > 3
    return len(_rels_of(c)) >= 2 or bool(c["q"]["conds"])


def _rels_of(c):
    rels = set(c["q"]["from"])
    for p in c["q"]["proj"]:
        if "." in p:
            rels.add(p.split(".")[0])
    return rels


def _query_text(q):
    s = " ".join(q["proj"])
    if q["from"]:
        s += " from " + " ".join(q["from"])
    for c in q["conds"]:
        s += " where " + _cond_text(c)
    return s


# ------------------------------------------------------------------ implementation side

def _tree(t):
    """impl condition tuple -> our list form"""
    op, body = t
    if op in ("and", "or"):
        return [op, [_tree(x) for x in body]]
    if op == "not":
        return ["not", _tree(body)]
    col, val = body
    if not isinstance(val, (int, str)):
        raise ValueError("operand type not modelled")
    return ["cmp", op, col, val]


def _mkdb(db):
    import os
    import tempfile
    from delphin import tsdb
    d = tempfile.mkdtemp(prefix="verif_c11_")
    schema = {}
    for r in db:
        schema[r["name"]] = [tsdb.Field(n, dt, [":key"] if key else []) for n, dt, key in r["fields"]]
    tsdb.write_schema(d, schema)
    for r in db:
        with open(os.path.join(d, r["name"]), "w", encoding="utf-8") as f:
            for row in r["rows"]:
                f.write(tsdb.join(row) + "\n")
    return d


def _dtree(t):
    """impl condition tuple -> list form with instants for datetimes"""
    import datetime
    op, body = t
    if op in ("and", "or"):
        return [op, [_dtree(x) for x in body]]
    if op == "not":
        return ["not", _dtree(body)]
    col, val = body
    if isinstance(val, datetime.datetime):
        if val.microsecond or val.tzinfo is not None:
            return ["cmp", op, col, repr(val)]
        val = [val.year, val.month, val.day, val.hour, val.minute, val.second]
    return ["cmp", op, col, val]


def _flat(t):
    """and/or of one operand cannot be written; nested same-operator groups are kept by the parentheses"""
    return t


def _d_db(c):
    return [{"name": "item",
             "fields": [["i-id", ":integer", True], ["i-input", ":string", False], ["i-date", ":date", False]],
             "rows": [[r[0], r[1], r[3]] for r in c["rows"]]}]


def _d_observe(c):
    import shutil
    import warnings
    from delphin import tsql, tsdb
    with warnings.catch_warnings():
        warnings.simplefilter("ignore")
        if c["k"] == "dprinted":
            try:
                q = tsql.inspect_query("select x where " + c["text"])
            except Exception as e:
                return {"err": type(e).__name__}
            return {"cond": _dtree(q["condition"])}
        d = _mkdb(_d_db(c))
        try:
            try:
                rows = [list(r) for r in tsql.select("%s where %s" % (" ".join(c["proj"]), c["text"]), tsdb.Database(d))]
                return {"rows": rows}
            except Exception as e:
                return {"err": type(e).__name__}
        finally:
            shutil.rmtree(d, ignore_errors=True)


def _d_oracle(c):
    o = _d_observe(c)
    if c["k"] == "dprinted":
        if o.get("cond") != c["tree"]:
            return "parsing %r returns %r, not the tree %r" % (c["text"], o.get("cond", o.get("err")), c["tree"])
        return None
    if c["bad"]:
        if o.get("err") != "TSQLError":
            return "the condition %r mixes a literal with a column of another type and was not rejected: %r" % (
                c["text"], o)
        return None
    if "err" in o:
        return "select raised %s on the valid query %r" % (o["err"], c["text"])
    import datetime

    def ev(t, row):
        if t[0] == "cmp":
            v = {"i-id": None if row[0] == "" else int(row[0]), "i-input": row[1] or None,
                 "i-date": None if row[2] is None else datetime.datetime(*row[2])}[t[2]]
            if v is None:
                return t[1] == "!~"
            x = datetime.datetime(*t[3]) if isinstance(t[3], list) else t[3]
            return {"==": lambda: v == x, "!=": lambda: v != x, "<": lambda: v < x, "<=": lambda: v <= x,
                    ">": lambda: v > x, ">=": lambda: v >= x,
                    "~": lambda: bool(re.search(x, v)), "!~": lambda: not re.search(x, v)}[t[1]]()
        if t[0] == "not":
            return not ev(t[1], row)
        return (all if t[0] == "and" else any)(ev(x, row) for x in t[1])
    idx = {"i-id": 0, "i-input": 1, "i-date": 3}
    want = [[(r[idx[p]] or None) for p in c["proj"]] for r in c["rows"] if ev(c["tree"], r)]
    if o["rows"] != want:
        return "select %s where %s returns %r, the stored rows satisfying it are %r" % (
            " ".join(c["proj"]), c["text"], o["rows"][:5], want[:5])
    return None


def observe(c):
    import shutil
    from delphin import tsql, tsdb
    if c["k"] in ("dprinted", "dselect"):
        return _d_observe(c)
    if c["k"] in ("printed", "tokparse"):
        text = "x where " + _cond_text(c["c"]) if c["k"] == "printed" else "x " + " ".join(c["toks"])
        try:
            q = tsql.inspect_query("select " + text)
        except tsql.TSQLSyntaxError:
            return {"err": "syntax"}
        try:
            return {"cond": None if q["condition"] is None else _tree(q["condition"])}
        except ValueError:
            return {"err": "unmodelled"}
    d = _mkdb(c["db"])
    try:
        db = tsdb.Database(d)
        try:
            rows = [list(r) for r in tsql.select(_query_text(c["q"]), db)]
            return {"rows": rows}
        except (tsql.TSQLError, tsql.TSQLSyntaxError, KeyError, ValueError, IndexError) as e:
            return {"err": type(e).__name__}
    finally:
        shutil.rmtree(d, ignore_errors=True)


def _cast(dt, v):
    if v is None or v == "":
        return None
    return int(v) if dt == ":integer" else v


def _oracle_rows(c):
    """independent relational semantics: nested-loop join over shared keys of the needed
    relations (through at most one linking relation), filter, project"""
    q = c["q"]
    dbd = dict((r["name"], r) for r in c["db"])
    order = [r["name"] for r in c["db"]]
    fromrels = q["from"]

    def owner(col):
        if "." in col:
            return col.split(".")
        owners = [n for n in order if col in [f[0] for f in dbd[n]["fields"]]]
        pref = [n for n in owners if n in fromrels] + [n for n in owners if n not in fromrels]
        return [pref[0], col]
    proj = q["proj"]
    if proj == ["*"]:
        proj, seen = [], set()
        for n in fromrels:
            for f in dbd[n]["fields"]:
                if not f[2]:
                    proj.append("%s.%s" % (n, f[0]))
                elif f[0] not in seen:
                    proj.append("%s.%s" % (n, f[0]))
                    seen.add(f[0])
    pq = [owner(p) for p in proj]
    cq = []

    def walk(t):
        if t[0] == "cmp":
            cq.append(owner(t[2]))
        elif t[0] == "not":
            walk(t[1])
        else:
            for x in t[1]:
                walk(x)
    for t in q["conds"]:
        walk(t)
    rels = []
    for n in fromrels + [r for r, _ in pq] + [r for r, _ in cq]:
        if n not in rels:
            rels.append(n)

    def keys(n):
        return [f[0] for f in dbd[n]["fields"] if f[2]]
    # connect through one pivot if needed
    def connected(rs):
        comp = [set(keys(r)) for r in rs]
        changed = True
        while changed:
            changed = False
            for i in range(len(comp)):
                for j in range(i + 1, len(comp)):
                    if comp[i] & comp[j]:
                        comp[i] |= comp.pop(j)
                        changed = True
                        break
                if changed:
                    break
        return len(comp) <= 1
    if not connected(rels):
        for n in order:
            if n not in rels and len(keys(n)) > 1 and connected(rels + [n]):
                rels.append(n)
                break
        else:
            return None
    # nested loops over all relations: rows agree on every shared key column
    import itertools
    out = []
    for combo in itertools.product(*[dbd[n]["rows"] for n in rels]):
        env = {}
        ok = True
        for n, row in zip(rels, combo):
            for f, v in zip(dbd[n]["fields"], row):
                if f[2]:
                    cv = _cast(f[1], v)
                    if f[0] in env and env[f[0]] != cv:
                        ok = False
                    env.setdefault(f[0], cv)
        if not ok:
            continue
        vals = {}
        for n, row in zip(rels, combo):
            for f, v in zip(dbd[n]["fields"], row):
                vals[(n, f[0])] = (f[1], v)

        def ev(t):
            if t[0] == "cmp":
                r, col = owner(t[2])
                if (r, col) not in vals:
                    # key column of a relation joined on: take the bare key value
                    dt, v = [x for (rr, cc), x in vals.items() if cc == col][0]
                else:
                    dt, v = vals[(r, col)]
                cv = _cast(dt, v)
                if cv is None:
                    return t[1] == "!~"
                x = t[3]
                return {"==": lambda: cv == x, "!=": lambda: cv != x, "<": lambda: cv < x,
                        "<=": lambda: cv <= x, ">": lambda: cv > x, ">=": lambda: cv >= x,
                        "~": lambda: bool(re.search(x, cv)), "!~": lambda: not re.search(x, cv)}[t[1]]()
            if t[0] == "not":
                return not ev(t[1])
            if t[0] == "and":
                return all(ev(x) for x in t[1])
            return any(ev(x) for x in t[1])
        if all(ev(t) for t in q["conds"]):
            row = []
            for r, col in pq:
                if (r, col) in vals:
                    row.append(vals[(r, col)][1])
                else:
                    row.append([x for (rr, cc), x in vals.items() if cc == col][0][1])
            out.append([v if v != "" else None for v in row])
    return out


def oracle(c):
    from delphin import tsql
    if c["k"] in ("dprinted", "dselect"):
        return _d_oracle(c)
    if c["k"] == "printed":
        text = "select x where " + _cond_text(c["c"])
        q = tsql.inspect_query(text)
        if _tree(q["condition"]) != _norm(c["c"]):
            return "parsing the text of a condition tree returns %r, not the tree %r" % (q["condition"], c["c"])
        return None
    if c["k"] != "select":
        return None
    o = observe(c)
    if "err" in o:
        if any(_has_mismatch(t) for t in c["q"]["conds"]):
            return None
        if _oracle_rows(c) is not None and o["err"] in ("TSQLError", "TSQLSyntaxError"):
            return "select raised %s on the valid query %r" % (o["err"], _query_text(c["q"]))
        return None
    if any(_has_mismatch(t) for t in c["q"]["conds"]):
        return "a literal whose type does not match its column was evaluated instead of rejected"
    want = _oracle_rows(c)
    if want is None:
        return None
    got = o["rows"]
    if len(_rels_used(c)) <= 1:
        if got != want:
            return "select returns %r, the relation holds %r" % (got[:5], want[:5])
    elif sorted(map(repr, got)) != sorted(map(repr, want)):
        return "select returns %d rows %r, relational semantics gives %d rows %r" % (
            len(got), got[:4], len(want), want[:4])
    return None


def _rels_used(c):
    q = c["q"]
    rels = set(q["from"])
    dbd = dict((r["name"], r) for r in c["db"])
    names = list(q["proj"])

    def walk(t):
        if t[0] == "cmp":
            names.append(t[2])
        elif t[0] == "not":
            walk(t[1])
        else:
            for x in t[1]:
                walk(x)
    for t in q["conds"]:
        walk(t)
    for p in names:
        if p == "*":
            continue
        if "." in p:
            rels.add(p.split(".")[0])
        else:
            owners = [r["name"] for r in c["db"] if p in [f[0] for f in r["fields"]]]
            pref = [n for n in owners if n in q["from"]] + [n for n in owners if n not in q["from"]]
            if pref:
                rels.add(pref[0])
    return rels


def _norm(c):
    if c[0] == "cmp":
        return ["cmp", c[1], c[2], c[3]]
    if c[0] == "not":
        return ["not", _norm(c[1])]
    return [c[0], [_norm(x) for x in c[1]]]


def known_match(case, failure, known):
    return None


# ------------------------------------------------------------------ Coq side
DT = {":integer": "TInt", ":string": "TStr", ":float": "TFloat", ":date": "TDate"}


def _lit(v):
    if isinstance(v, list):          # an instant: [year, month, day, hour, minute, second]
        return app("LDate", "{| dy := %d; dmo := %d; dd := %d; dh := %d; dmi := %d; TsdbDate.ds := %d |}" % tuple(v))
    return app("LInt", cZ(v)) if isinstance(v, int) else app("LStr", cstr(v))


def _cond(c):
    if c[0] == "cmp":
        return app("CCmp", OPC[c[1]], cstr(c[2]), _lit(c[3]))
    if c[0] == "not":
        return app("CNot", _cond(c[1]))
    return app("CAnd" if c[0] == "and" else "COr", clist(c[1], _cond))


TOKMAP = {"where": "KWhere", "and": "KAnd", "&&": "KAnd", "&": "KAnd", "or": "KOr", "||": "KOr", "|": "KOr",
          "not": "KNot", "!": "KNot", "(": "KLp", ")": "KRp"}


def _tok(t):
    if t in TOKMAP:
        return TOKMAP[t]
    if t == "=":
        return app("KOp", "OEq")
    if t in OPC:
        return app("KOp", OPC[t])
    if re.fullmatch(r"[+-]?\d+", t):
        return app("KInt", cZ(int(t)))
    if t.startswith('"'):
        return app("KStr", cstr(t[1:-1]))
    return app("KId", cstr(t))


def _db(db):
    return clist(db, lambda r: "{| r_name := %s; r_fields := %s; r_rows := %s |}" % (
        cstr(r["name"]),
        clist(r["fields"], lambda f: "{| tf_name := %s; tf_type := %s; tf_key := %s |}"
              % (cstr(f[0]), DT[f[1]], cbool(f[2]))),
        clist(r["rows"], lambda row: clist(row, lambda v: copt(v if v != "" else None, cstr)))))


def _oracle_table(c):
    pairs = set()
    pats = set()

    def walk(t):
        if t[0] == "cmp":
            if t[1] in ("~", "!~") and isinstance(t[3], str):
                pats.add(t[3])
        elif t[0] == "not":
            walk(t[1])
        else:
            for x in t[1]:
                walk(x)
    for t in c["q"]["conds"]:
        walk(t)
    vals = set()
    for r in c["db"]:
        for row in r["rows"]:
            for v in row:
                if v:
                    vals.add(v)
    return [(p, v, bool(re.search(p, v))) for p in sorted(pats) for v in sorted(vals)]


def coq_case(c, o):
    if c["k"] == "dprinted":
        if "cond" not in o:
            return app("CPrinted", _cond(c["tree"]), "None")
        return app("CPrinted", _cond(c["tree"]), "(Some %s)" % _cond(o["cond"]))
    if c["k"] == "dselect":
        if any(ord(ch) > 127 for r in c["rows"] for ch in (r[1] or "")):
            return None                  # the date model is ASCII; the other fields of these rows are too
        pats = set()

        def walk(t):
            if t[0] == "cmp":
                if t[1] in ("~", "!~") and isinstance(t[3], str):
                    pats.add(t[3])
            elif t[0] == "not":
                walk(t[1])
            else:
                for x in t[1]:
                    walk(x)
        walk(c["tree"])
        vals = sorted(set(r[1] for r in c["rows"] if r[1]))
        table = [(pt, v, bool(re.search(pt, v))) for pt in sorted(pats) for v in vals]
        obs = "None" if "err" in o else "(Some %s)" % clist(
            o["rows"], lambda row: clist(row, lambda v: copt(v, cstr)))
        return app("CSelect", _db(_d_db(c)),
                   clist(table, lambda e: "(%s, %s, %s)" % (cstr(e[0]), cstr(e[1]), cbool(e[2]))),
                   cbool(False), clist(c["proj"], cstr), clist([], cstr),
                   copt(c["tree"], _cond), cbool(True), obs)
    if "exc" in o:
        raise ValueError("harness")
    if c["k"] == "printed":
        if o.get("err") == "unmodelled":
            return None
        return app("CPrinted", _cond(c["c"]), "None" if "err" in o else "(Some %s)" % _cond(o["cond"]))
    if c["k"] == "tokparse":
        if o.get("err") == "unmodelled":
            return None
        obs = "None" if "err" in o else "(Some %s)" % copt(o["cond"], _cond)
        return app("CTokParse", clist(c["toks"] + ["."], lambda t: "KDot" if t == "." else _tok(t)), obs)
    q = c["q"]
    cond = None
    if len(q["conds"]) == 1:
        cond = q["conds"][0]
    elif len(q["conds"]) > 1:
        cond = ["and", q["conds"]]
    star = q["proj"] == ["*"]
    obs = "None" if "err" in o else "(Some %s)" % clist(
        o["rows"], lambda row: clist(row, lambda v: copt(v, cstr)))
    return app("CSelect", _db(c["db"]),
               clist(_oracle_table(c), lambda e: "(%s, %s, %s)" % (cstr(e[0]), cstr(e[1]), cbool(e[2]))),
               cbool(star), clist([] if star else q["proj"], cstr), clist(q["from"], cstr),
               copt(cond, _cond), cbool(len(_rels_used(c)) <= 1), obs)
