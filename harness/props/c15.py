"""C15 — TDL text and TDL objects round-trip (syntax level: token printer and recursive-descent parser)."""
import os
from harness.coqlit import cstr, cZ, copt, clist, app, cbool, cnat

ID = "C15"
COQ_TARGETS = ["Props/C15.vo", "Corr/C15.vo"]
TIE_A = []
CASE_TIMEOUT = 20
SHARD = 25
RULE = ("TDL object trees to depth 4 built through the public classes: type definitions, addenda (also "
        "docstring-only), lexical rules with affix patterns, bodies that nest conjunctions, feature structures with "
        "dotted paths (also sharing prefixes, in mixed case), cons lists (empty, open, closed, dotted, long enough to "
        "force line breaks), diff lists, coreferences, strings, regexes, docstrings with quotes and backslashes on "
        "definitions and terms; letter sets and wild cards (characters incl. ')', blank and backslash), "
        "environments (nested, with status), includes, line and block comments; whole files of 1-6 entities read "
        "through iterparse; hand-written TDL texts (single-quoted symbols, ':<', comments between entities, "
        "malformed entities); histories of 1-6 dotted-path assignments on a FeatureStructure in mixed letter case "
        "with look-ups of the same, shorter, longer and unrelated paths. Compared: the token stream of format(obj) "
        "under the real lexer, the events of iterparse, the results of the look-ups and both feature listings. Non-trivial = a definition whose body has a feature structure or list; distinct = canonical JSON.")
EXHAUSTIVE = {"quick": False, "thorough": False}
EXPLANATION = ("The syntax-level round trip is a theorem over the token stream for all term trees; layout (line width, "
               "indentation), the lexer's regular expressions and the feature-structure container (dotted-path "
               "assignment, collapsing of unary paths) are oracles: the first two are exercised through the real lexer "
               "on every case, the last is checked by the oracle on the implementation.")
ASSUMPTIONS = [
    "identifiers, feature names (upper case), strings, regexes and coreference names are lexed as single tokens of "
    "their kind by _tdl_lex_re (checked through the real lexer on every generated case)",
    "feature structures are in the normal form that AVM.features() yields (what the formatter prints)",
    "comments inside a definition are not modelled",
]
TRUSTED = ["_tdl_lex_re / _lex / _bounded (exercised through the real lexer on every case)",
           "harness observation of TDL objects through features()/values()/terminated"]
LEVEL_TEXT = ("Proof (Coq, no axioms) about the syntax-level model of delphin/tdl.py: parsing the token stream that "
              "the formatter prints for any term tree (identifiers, strings, regexes, coreferences, feature "
              "structures with dotted paths, cons lists empty/open/closed/dotted, diff lists, docstrings on any "
              "term, conjunctions at any depth) returns that very tree, whatever follows; definitions, addenda "
              "(also docstring-only), lexical rules, letter sets, environments, includes and comments round-trip as "
              "a sequence of parse events; in the feature-structure container a value stored under a dotted path is "
              "retrieved by that path in any letter case and assignments do not disturb diverging paths. Printer, "
              "parser and container models are tied to the code by kernel-checked "
              "correspondence on the real lexer's tokens; text-level stability, docstring normalisation, "
              "dotted-path access in any letter case and the expanded feature list are checked on the implementation "
              "by the oracle.")
LEVEL_NOTE = ("Partial: layout (width-aware line breaking) and the lexer are oracles; docstring escaping and the "
              "collapsing of unary paths by AVM.features() during the round trip are oracle-checked.")
TECHNIQUE = "Coq proof (token-level parse-of-print by nested induction with fuel adequacy) + kernel-checked correspondence + oracle"
DESIGN_REF = "DESIGN.md section 6, C15"

IDS = ["head", "noun", "verb-lex", "sign", "*top*", "cat", "a1", "x+y", "comp_rule", "n_-_c_le", "0-dlist", "名詞"]
FEATS = ["SYNSEM", "LOCAL", "CAT", "HEAD", "VAL", "SUBJ", "COMPS", "ARGS", "C-CONT", "HOOK", "X1", "ORTH"]
STRINGS = ["abc", "a b", "", "it's", "a\\\"b", "x\\\\", "(paren)", "日本"]
REGEXES = ["[a-z]+", "a|b", "x\\$y", ""]
COREFS = ["1", "x", "comps", "a-b"]
DOCS = [None, None, None, "doc", "two\nlines", "a \"quoted\" word", "ends with quote\"", "back\\slash", "\"\"\"triple",
        "  indented\n    more"]


def gen_term(rng, depth, allow_doc=True):
    k = rng.random()
    doc = rng.choice(DOCS) if allow_doc and rng.random() < 0.25 else None
    if depth <= 0 or k < 0.35:
        kind = rng.choice(["id", "id", "id", "str", "regex", "coref"])
        if kind == "id":
            return {"t": "id", "s": rng.choice(IDS), "doc": doc}
        if kind == "str":
            return {"t": "str", "s": rng.choice(STRINGS), "doc": doc}
        if kind == "regex":
            return {"t": "regex", "s": rng.choice(REGEXES), "doc": doc}
        return {"t": "coref", "s": rng.choice(COREFS), "doc": doc}
    if k < 0.65:
        n = rng.choice([0, 1, 1, 2, 2, 3])
        feats = []
        used = set()
        for _ in range(n):
            path = [rng.choice(FEATS) for _ in range(rng.choice([1, 1, 2, 3]))]
            if path[0] in used:
                continue
            used.add(path[0])
            feats.append([path, gen_conj(rng, depth - 1)])
        # an AVM with exactly one feature is collapsed into its parent's path by features(): no docstring on it
        return {"t": "avm", "feats": feats, "doc": doc if len(feats) != 1 else None}
    if k < 0.85:
        n = rng.choice([0, 1, 2, 3, 7])
        vals = [gen_conj(rng, depth - 1) for _ in range(n)]
        kind = rng.choice(["closed", "closed", "open", "dotted"])
        if kind == "dotted" and n == 0:
            kind = "closed"
        return {"t": "cons", "values": vals, "kind": kind,
                "end": gen_conj(rng, 0) if kind == "dotted" else None, "doc": doc}
    return {"t": "diff", "values": [gen_conj(rng, depth - 1) for _ in range(rng.choice([0, 1, 2, 3]))], "doc": doc}


def gen_conj(rng, depth):
    n = rng.choice([1, 1, 1, 2, 3])
    return [gen_term(rng, depth) for _ in range(n)]


def gen_entity(rng, depth=3):
    k = rng.random()
    ident = rng.choice(IDS)
    if k < 0.45:
        c = [{"t": "id", "s": rng.choice(IDS), "doc": None}] + gen_conj(rng, depth)
        if rng.random() < 0.3:
            rng.shuffle(c)
        return {"e": "def", "id": ident, "conj": c, "doc": rng.choice(DOCS)}
    if k < 0.6:
        only_doc = rng.random() < 0.3
        return {"e": "add", "id": ident, "conj": [] if only_doc else gen_conj(rng, depth),
                "doc": rng.choice(DOCS[3:]) if only_doc else rng.choice(DOCS)}
    if k < 0.7:
        pats = [[rng.choice(["*", "!s", "e", "!t!v!c"]), rng.choice(["s", "!ss", "ed", "!t!v!c!ced"])]
                for _ in range(rng.randrange(0, 4))]
        return {"e": "lex", "id": ident, "affix": rng.choice(["prefix", "suffix"]), "pats": pats,
                "conj": [{"t": "id", "s": rng.choice(IDS), "doc": None}] + gen_conj(rng, 1), "doc": rng.choice(DOCS)}
    if k < 0.8:
        return {"e": "morph", "kind": rng.choice(["letter-set", "wild-card"]), "var": rng.choice("abcv"),
                "chars": rng.choice(["abc", "aeiou", "a)b", "x y", "back\\slash", "()", "é日"])}
    if k < 0.86:
        return {"e": "include", "value": rng.choice(["lexicon", "sub/dir/file", "a b"])}
    if k < 0.93:
        return {"e": "linec", "s": rng.choice(["", " a comment", ";; double", " :begin :type."])}
    return {"e": "blockc", "s": rng.choice(["", " block ", "\n multi\n line\n", " a | b # c "])}


def gen_file(rng):
    ents = []
    for _ in range(rng.randrange(1, 6)):
        if rng.random() < 0.2:
            kind = rng.choice(["type", "instance"])
            ents.append({"e": "env", "kind": kind, "status": rng.choice([None, "lex-rule", "rule"]) if kind == "instance" else None,
                         "entries": [gen_entity(rng, 2) for _ in range(rng.randrange(0, 3))]})
        else:
            ents.append(gen_entity(rng))
    return ents


TEXTS = [
    "a := b & [ F 'sym, G.H #1 & <! x !> ].",
    "a :< b.",
    "a := b &\n  [ F < a, b . #c > ] \"\"\"\n  doc\n  \"\"\".",
    "; comment\na := b. #| block |# c :+ \"\"\"d\"\"\".",
    ":begin :instance :status lex-rule.\nr := %suffix (!s !ss) (* s) lex & [ ARGS < #1 > ].\n:end :instance.",
    ":begin :type.\n:include \"x\".\n%(letter-set (!c abc))\n:end :type.",
    "a := [ F x ].",
    "a := b & [ F ].",
    "a := b & [ F x, ].",
    "a := b & < x, >.",
    "a := b & < ... , x >.",
    "a := b & [ F.G x ]",
    "a := b c.",
    ":end :type.",
    ":begin :type. :end :instance.",
    "a := b & [ F. x ].",
    "a := < x . y . z >.",
    "a :+ .",
    "a :+ \"\"\"d\"\"\" b.",
    "a := b & <! !> & < > & < ... > & [ ].",
]


def gen(rng, tier):
    cases = []
    n = 260 if tier == "quick" else 12000
    import json as _json
    for i in range(n):
        while True:
            e = gen_entity(rng, rng.choice([1, 2, 3, 4]))
            if len(_json.dumps(e)) < 5000:
                break
        cases.append({"k": "ent", "ent": e})
    for i in range(n // 6):
        while True:
            f = gen_file(rng)
            if len(_json.dumps(f)) < 8000:
                break
        cases.append({"k": "file", "ents": f})
    for t in TEXTS:
        cases.append({"k": "text", "text": t})
    for i in range(n // 2):
        cases.append(gen_tfs(rng))
    # documentation strings that need their quotes escaped in more than one place: runs of three to
    # seven quotes, quotes after a backslash, a backslash before the closing delimiter - on a type
    # definition, on one of its terms, on a docstring-only addendum and on a lexical rule
    for doc in HARD_DOCS:
        cases.append({"k": "ent", "ent": {"e": "def", "id": "head", "doc": doc,
                                          "conj": [{"t": "id", "s": "sign", "doc": None}]}})
        cases.append({"k": "ent", "ent": {"e": "def", "id": "head", "doc": None,
                                          "conj": [{"t": "id", "s": "sign", "doc": doc},
                                                   {"t": "id", "s": "noun", "doc": None}]}})
        cases.append({"k": "ent", "ent": {"e": "add", "id": "head", "conj": [], "doc": doc}})
        cases.append({"k": "ent", "ent": {"e": "lex", "id": "comp_rule", "affix": "suffix", "pats": [["*", "s"]],
                                          "conj": [{"t": "id", "s": "sign", "doc": None}], "doc": doc}})
    return cases


HARD_DOCS = ['a """ b', '""""', '"""""', 'x """""" y', '"""""""', 'a \\""" b', 'a \\" b', '\\"', 'q \\',
             'two\nlines """" end', '"', '""']


TFS_FEATS = ["A", "B", "c", "Head", "VAL", "x-y"]


def _case_variant(rng, s):
    return "".join(ch.upper() if rng.random() < 0.5 else ch.lower() for ch in s)


def gen_tfs(rng):
    """a history of dotted-path assignments on a FeatureStructure and the paths to look up afterwards"""
    ops = []
    for j in range(rng.randrange(1, 7)):
        path = [_case_variant(rng, rng.choice(TFS_FEATS)) for _ in range(rng.choice([1, 1, 2, 2, 3, 4]))]
        # value 0 = a fresh empty FeatureStructure (an empty AVM as a value)
        ops.append([path, 0 if rng.random() < 0.2 else j + 1])
    gets = []
    for path, _ in ops:
        gets.append([_case_variant(rng, f) for f in path])
        if len(path) > 1:
            gets.append([_case_variant(rng, f) for f in path[:-1]])
        gets.append([_case_variant(rng, f) for f in path] + [rng.choice(TFS_FEATS)])
    for _ in range(3):
        gets.append([rng.choice(TFS_FEATS) for _ in range(rng.choice([1, 2, 3]))])
    return {"k": "tfs", "ops": ops, "gets": gets}


def nontrivial(c):
    if c["k"] == "tfs":
        return len(c["ops"]) >= 2
    if c["k"] == "ent":
        e = c["ent"]
        return e["e"] in ("def", "add", "lex") and any(t["t"] in ("avm", "cons", "diff") for t in e["conj"])
    if c["k"] == "file":
        return len(c["ents"]) >= 2
    return True


# ------------------------------------------------------------------ implementation side

def build_term(d):
    from delphin import tdl
    t = d["t"]
    if t == "id":
        return tdl.TypeIdentifier(d["s"], docstring=d["doc"])
    if t == "str":
        return tdl.String(d["s"], docstring=d["doc"])
    if t == "regex":
        return tdl.Regex(d["s"], docstring=d["doc"])
    if t == "coref":
        return tdl.Coreference(d["s"], docstring=d["doc"])
    if t == "avm":
        return tdl.AVM([(".".join(p), build_conj(c)) for p, c in d["feats"]], docstring=d["doc"])
    if t == "cons":
        vals = [build_conj(c) for c in d["values"]]
        if d["kind"] == "open":
            return tdl.ConsList(vals, end=tdl.LIST_TYPE, docstring=d["doc"])
        if d["kind"] == "dotted":
            return tdl.ConsList(vals, end=build_conj(d["end"]), docstring=d["doc"])
        return tdl.ConsList(vals, end=tdl.EMPTY_LIST_TYPE, docstring=d["doc"])
    return tdl.DiffList([build_conj(c) for c in d["values"]], docstring=d["doc"])


def build_conj(c):
    from delphin import tdl
    terms = [build_term(t) for t in c]
    if len(terms) == 1:
        return terms[0]
    return tdl.Conjunction(terms)


def build_entity(e):
    from delphin import tdl
    k = e["e"]
    if k == "def":
        return tdl.TypeDefinition(e["id"], tdl.Conjunction([build_term(t) for t in e["conj"]]), docstring=e["doc"])
    if k == "add":
        return tdl.TypeAddendum(e["id"], tdl.Conjunction([build_term(t) for t in e["conj"]]) if e["conj"] else None,
                                docstring=e["doc"])
    if k == "lex":
        return tdl.LexicalRuleDefinition(e["id"], e["affix"], [tuple(p) for p in e["pats"]],
                                         tdl.Conjunction([build_term(t) for t in e["conj"]]), docstring=e["doc"])
    if k == "morph":
        cls = tdl.LetterSet if e["kind"] == "letter-set" else tdl.WildCard
        return cls(("!" if e["kind"] == "letter-set" else "?") + e["var"], e["chars"])
    if k == "include":
        return tdl.FileInclude(e["value"])
    if k == "linec":
        return tdl.LineComment(e["s"])
    if k == "blockc":
        return tdl.BlockComment(e["s"])
    if k == "env":
        entries = [build_entity(x) for x in e["entries"]]
        if e["kind"] == "type":
            return tdl.TypeEnvironment(entries)
        return tdl.InstanceEnvironment(e["status"], entries)
    raise ValueError(k)


def obs_term(t):
    """the syntax tree of a TDL term as the formatter sees it"""
    from delphin import tdl
    doc = t.docstring
    if isinstance(t, tdl.ConsList):
        vals = [obs_conj(v) for v in t.values()]
        if not t.terminated:
            return {"t": "cons", "values": vals, "kind": "open", "end": None, "doc": doc}
        if t._avm is not None and t[t._last_path] is not None:
            return {"t": "cons", "values": vals[:-1], "kind": "dotted", "end": vals[-1], "doc": doc}
        return {"t": "cons", "values": vals, "kind": "closed", "end": None, "doc": doc}
    if isinstance(t, tdl.DiffList):
        return {"t": "diff", "values": [obs_conj(v) for v in t.values()], "doc": doc}
    if isinstance(t, tdl.AVM):
        return {"t": "avm", "feats": [[p.split("."), obs_conj(v)] for p, v in t.features()], "doc": doc}
    if isinstance(t, tdl.Coreference):
        return {"t": "coref", "s": t.identifier, "doc": doc}
    if isinstance(t, tdl.String):
        return {"t": "str", "s": str(t), "doc": doc}
    if isinstance(t, tdl.Regex):
        return {"t": "regex", "s": str(t), "doc": doc}
    if isinstance(t, tdl.TypeIdentifier):
        return {"t": "id", "s": str(t), "doc": doc}
    raise ValueError(type(t).__name__)


def obs_conj(v):
    from delphin import tdl
    if isinstance(v, tdl.Conjunction):
        return [obs_term(t) for t in v.terms]
    return [obs_term(v)]


def obs_event(name, obj):
    from delphin import tdl
    if name == "TypeDefinition":
        return {"e": "def", "id": obj.identifier, "conj": obs_conj(obj.conjunction), "doc": obj.docstring}
    if name == "TypeAddendum":
        return {"e": "add", "id": obj.identifier, "conj": obs_conj(obj.conjunction), "doc": obj.docstring}
    if name == "LexicalRuleDefinition":
        return {"e": "lex", "id": obj.identifier, "affix": obj.affix_type, "pats": [list(p) for p in obj.patterns],
                "conj": obs_conj(obj.conjunction), "doc": obj.docstring}
    if name in ("LetterSet", "WildCard"):
        return {"e": "morph", "kind": "letter-set" if name == "LetterSet" else "wild-card", "var": obj.var[1:],
                "chars": obj.characters}
    if name == "BeginEnvironment":
        if isinstance(obj, tdl.InstanceEnvironment):
            return {"e": "begin", "kind": "instance", "status": obj.status}
        return {"e": "begin", "kind": "type", "status": None}
    if name == "EndEnvironment":
        return {"e": "end", "kind": "instance" if isinstance(obj, tdl.InstanceEnvironment) else "type"}
    if name == "FileInclude":
        return {"e": "include", "value": obj.value}
    if name == "LineComment":
        return {"e": "linec", "s": str(obj)}
    if name == "BlockComment":
        return {"e": "blockc", "s": str(obj)}
    raise ValueError(name)


def lex(text):
    from delphin import tdl
    return [[gid, tok] for gid, tok, _ in tdl._lex(text.splitlines(keepends=True))]


def parse_text(text):
    import tempfile, warnings
    from delphin import tdl
    d = tempfile.mkdtemp(prefix="c15_")
    try:
        p = os.path.join(d, "f.tdl")
        with open(p, "w", encoding="utf-8") as f:
            f.write(text)
        with warnings.catch_warnings():
            warnings.simplefilter("ignore")
            try:
                return {"events": [obs_event(n, o) for n, o, _ in tdl.iterparse(p)]}
            except (tdl.TDLSyntaxError, tdl.TDLError, AssertionError, IndexError) as e:
                return {"err": type(e).__name__}
    finally:
        import shutil
        shutil.rmtree(d, ignore_errors=True)


def _text_of(c):
    from delphin import tdl
    if c["k"] == "ent":
        return tdl.format(build_entity(c["ent"]))
    if c["k"] == "file":
        return "\n\n".join(tdl.format(build_entity(e)) for e in c["ents"]) + "\n"
    return c["text"]


def _tfs_val(v):
    from delphin import tfs
    return -1 if isinstance(v, tfs.FeatureStructure) else v


def observe_tfs(c):
    from delphin import tfs
    f = tfs.FeatureStructure()
    oks = []
    for path, val in c["ops"]:
        try:
            f[".".join(path)] = val if val != 0 else tfs.FeatureStructure()
            oks.append(True)
        except tfs.TFSError:
            oks.append(False)
    gets = []
    for path in c["gets"]:
        try:
            gets.append([path, _tfs_val(f[".".join(path)])])
        except (KeyError, TypeError):
            gets.append([path, None])
    return {"oks": oks, "gets": gets,
            "feats": [[p.split("."), _tfs_val(v)] for p, v in f.features()],
            "featsx": [[p.split("."), _tfs_val(v)] for p, v in f.features(expand=True)]}


def observe(c):
    from delphin import tdl
    if c["k"] == "tfs":
        return observe_tfs(c)
    text = _text_of(c)
    try:
        toks = lex(text)
    except tdl.TDLSyntaxError:
        return {"lexerr": True, "text": text}
    o = {"toks": toks, "parse": parse_text(text), "text": text}
    if c["k"] == "ent":
        o["syntax"] = flat_events([c["ent"]], observe_obj=True)
    elif c["k"] == "file":
        o["syntax"] = flat_events(c["ents"], observe_obj=True)
    return o


def flat_events(ents, observe_obj=False):
    """the event sequence of a list of entities (environments flattened), observed from the built objects"""
    out = []
    for e in ents:
        if e["e"] == "env":
            out.append({"e": "begin", "kind": e["kind"],
                        "status": (e["status"] or None) if e["kind"] == "instance" else None})
            out.extend(flat_events(e["entries"], observe_obj))
            out.append({"e": "end", "kind": e["kind"]})
        elif e["e"] in ("def", "add", "lex"):
            obj = build_entity(e)
            out.append(obs_event(type(obj).__name__, obj))
        else:
            out.append(dict(e))
    return out


# ------------------------------------------------------------------ oracle

def oracle_tfs(c):
    """a value stored under a dotted path is retrieved by that path in any letter case"""
    from delphin import tfs
    import random as _r
    rng = _r.Random(len(c["ops"]))
    f = tfs.FeatureStructure()
    for path, val in c["ops"]:
        if val == 0:
            val = tfs.FeatureStructure()
        try:
            f[".".join(path)] = val
        except tfs.TFSError:
            continue
        for _ in range(3):
            variant = ".".join(_case_variant(rng, x) for x in path)
            try:
                got = f[variant]
            except (KeyError, TypeError) as ex:
                return "value stored under %s is not retrievable as %s (%s)" % (".".join(path), variant, type(ex).__name__)
            if got is not val and got != val:
                return "value stored under %s retrieved as %s is %r" % (".".join(path), variant, got)
    # the feature list (what the formatter prints) covers every stored path: a listed path
    # continues it, or a listed sub-structure contains it
    listed = [p.upper().split(".") for p, _ in f.features()]
    for path, val in c["ops"]:
        up = [x.upper() for x in path]
        try:
            f[".".join(path)]
        except (KeyError, TypeError):
            continue        # the assignment was rejected or later replaced by a leaf above it
        if not any(q[:len(up)] == up or up[:len(q)] == q for q in listed):
            return "the stored path %s is missing from features(): %r" % (
                ".".join(path), [".".join(q) for q in listed])
    return None


def oracle(c):
    import warnings
    from delphin import tdl
    if c["k"] == "text":
        return None
    if c["k"] == "tfs":
        return oracle_tfs(c)
    with warnings.catch_warnings():
        warnings.simplefilter("ignore")
        text = _text_of(c)
        p1 = parse_text(text)
        if "err" in p1:
            return "the formatter's text cannot be parsed (%s): %r" % (p1["err"], text[:120])
        ents = [c["ent"]] if c["k"] == "ent" else c["ents"]
        expect = flat_events(ents, observe_obj=True)
        got = p1["events"]
        if _strip_docs(got) != _strip_docs(_norm_status(expect)):
            return "parsing the formatted text gives a different structure: %s" % _first_diff(
                _strip_docs(got), _strip_docs(_norm_status(expect)))
        # formatting the parsed entities gives the same text
        d2 = _reparse_format(text)
        if d2 is not None:
            return d2
        # dotted-path access in any letter case; expanded features unchanged by the round trip
        for e in ents:
            r = _check_paths(e)
            if r:
                return r
    return None


def _norm_status(evs):
    out = []
    for e in evs:
        if e["e"] == "begin" and e["kind"] == "instance" and not e["status"]:
            e = dict(e, status="instance")
        out.append(e)
    return out


def _strip_docs(x):
    """docstrings compare modulo the formatter's dedent/strip/indent normalisation: keep only their words"""
    if isinstance(x, dict):
        return {k: (" ".join(v.replace("\\", "").split()) if k == "doc" and isinstance(v, str) else _strip_docs(v))
                for k, v in x.items()}
    if isinstance(x, list):
        return [_strip_docs(v) for v in x]
    return x


def _first_diff(a, b):
    if len(a) != len(b):
        return "%d events vs %d" % (len(a), len(b))
    for x, y in zip(a, b):
        if x != y:
            return "%r vs %r" % (x, y)
    return "?"


def _reparse_format(text):
    import tempfile, shutil
    from delphin import tdl
    d = tempfile.mkdtemp(prefix="c15_")
    try:
        p = os.path.join(d, "f.tdl")
        with open(p, "w", encoding="utf-8") as f:
            f.write(text)
        objs = []
        stack = []
        for name, obj, _ in tdl.iterparse(p):
            if name == "BeginEnvironment":
                if not stack:
                    objs.append(obj)
                stack.append(obj)
            elif name == "EndEnvironment":
                stack.pop()
            elif not stack:
                objs.append(obj)
        text2 = "\n\n".join(tdl.format(o) for o in objs) + "\n"
        with open(p, "w", encoding="utf-8") as f:
            f.write(text2)
        objs2 = []
        stack = []
        for name, obj, _ in tdl.iterparse(p):
            if name == "BeginEnvironment":
                if not stack:
                    objs2.append(obj)
                stack.append(obj)
            elif name == "EndEnvironment":
                stack.pop()
            elif not stack:
                objs2.append(obj)
        text3 = "\n\n".join(tdl.format(o) for o in objs2) + "\n"
        if text3 != text2:
            return "formatting the parsed entity does not reproduce the text"
        return None
    finally:
        shutil.rmtree(d, ignore_errors=True)


def _obs_val(v):
    return None if v is None else obs_conj(v)


def _check_paths(e):
    """a value stored under a dotted path is retrieved by that path in any letter case; the expanded feature
    list of a body is unchanged by the round trip"""
    from delphin import tdl
    if e["e"] not in ("def", "add", "lex"):
        return None
    for d in e["conj"]:
        if d["t"] != "avm":
            continue
        avm = build_term(d)
        for path, c in d["feats"]:
            p = ".".join(path)
            want = obs_conj(build_conj(c))
            for variant in (p, p.lower(), p.title(), p.swapcase()):
                try:
                    got = avm[variant]
                except (KeyError, TypeError) as ex:
                    return "value stored under %s is not retrievable as %s (%s)" % (p, variant, type(ex).__name__)
                if _obs_val(got) != want:
                    return "value stored under %s retrieved as %s is a different value" % (p, variant)
    obj = build_entity(e)
    before = [[p, _obs_val(v)] for p, v in obj.features(expand=True)]
    back = _parse_objects(tdl.format(obj) + "\n")
    if len(back) != 1:
        return "the formatted entity parses as %d entities" % len(back)
    after = [[p, _obs_val(v)] for p, v in back[0].features(expand=True)]
    if _strip_docs(before) != _strip_docs(after):
        return "the expanded feature list changes in the round trip: %s" % _first_diff(
            _strip_docs(before), _strip_docs(after))
    return None


def _parse_objects(text):
    import tempfile, shutil
    from delphin import tdl
    d = tempfile.mkdtemp(prefix="c15_")
    try:
        p = os.path.join(d, "f.tdl")
        with open(p, "w", encoding="utf-8") as f:
            f.write(text)
        return [obj for name, obj, _ in tdl.iterparse(p)
                if name in ("TypeDefinition", "TypeAddendum", "LexicalRuleDefinition")]
    finally:
        shutil.rmtree(d, ignore_errors=True)


def known_match(case, failure, known):
    return None


# ------------------------------------------------------------------ Coq side

def c_term(t):
    doc = copt(t["doc"], cstr)
    k = t["t"]
    if k == "id":
        return "(MId %s %s)" % (doc, cstr(t["s"]))
    if k == "str":
        return "(MStr %s %s)" % (doc, cstr(t["s"]))
    if k == "regex":
        return "(MRegex %s %s)" % (doc, cstr(t["s"]))
    if k == "coref":
        return "(MCoref %s %s)" % (doc, cstr(t["s"]))
    if k == "avm":
        return "(MAvm %s %s)" % (doc, clist(t["feats"], lambda f: "(%s, %s)" % (clist(f[0], cstr), c_conj(f[1]))))
    if k == "cons":
        return "(MCons %s %s %s %s)" % (doc, clist(t["values"], c_conj),
                                        "COpen" if t["kind"] == "open" else "CClosed",
                                        copt(t["end"], c_conj))
    return "(MDiff %s %s)" % (doc, clist(t["values"], c_conj))


def c_conj(c):
    return clist(c, c_term)


def c_event(e):
    k = e["e"]
    if k == "def":
        return "(VDef %s %s %s)" % (cstr(e["id"]), c_conj(e["conj"]), copt(e["doc"], cstr))
    if k == "add":
        return "(VAdd %s %s %s)" % (cstr(e["id"]), c_conj(e["conj"]), copt(e["doc"], cstr))
    if k == "lex":
        return "(VLex %s %s %s %s %s)" % (cstr(e["id"]), cstr(e["affix"]),
                                          clist(e["pats"], lambda p: "(%s, %s)" % (cstr(p[0]), cstr(p[1]))), c_conj(e["conj"]),
                                          copt(e["doc"], cstr))
    if k == "morph":
        return "(VMorph %s %d%%N %s)" % (cbool(e["kind"] == "letter-set"), ord(e["var"]), cstr(e["chars"]))
    if k == "begin":
        return "(VBegin %s %s)" % (cstr(":" + e["kind"]), copt(e["status"], cstr))
    if k == "end":
        return "(VEnd %s)" % cstr(":" + e["kind"])
    if k == "include":
        return "(VInclude %s)" % cstr(e["value"])
    if k == "linec":
        return "(VLineC %s)" % cstr(e["s"])
    return "(VBlockC %s)" % cstr(e["s"])


GID = {1: "KDoc", 2: "KBlockC", 3: "KLineC", 4: "KStr", 5: "KQSym", 6: "KRegex", 7: "KDefOp", 19: "KCoref",
       20: "KMorph", 21: "KAffix", 22: "KAffixPat", 24: "KIdent", 27: "KEnvType"}
GID0 = {8: "KAddOp", 9: "KEllipsis", 10: "KDot", 11: "KAmp", 12: "KComma", 13: "KLBrk", 14: "KLDiff", 15: "KLAngle",
        16: "KRBrk", 17: "KRDiff", 18: "KRAngle", 23: "KSlash", 25: "KBegin", 26: "KEnd", 28: "KStatus",
        29: "KInclude"}


def c_tok(t):
    gid, tok = t
    if gid in GID0:
        return GID0[gid]
    return "(%s %s)" % (GID[gid], cstr(tok))


def coq_case(c, o):
    if "exc" in o:
        raise ValueError("harness")
    if c["k"] == "tfs":
        return app("CTfs",
                   clist(c["ops"], lambda op: "(%s, %d%%N)" % (clist(op[0], cstr), op[1])),
                   clist(o["oks"], cbool),
                   clist(o["gets"], lambda g: "(%s, %s)" % (clist(g[0], cstr), copt(g[1], cZ))),
                   clist(o["feats"], lambda g: "(%s, %s)" % (clist(g[0], cstr), cZ(g[1]))),
                   clist(o["featsx"], lambda g: "(%s, %s)" % (clist(g[0], cstr), cZ(g[1]))))
    if "lexerr" in o:
        return None
    toks = clist(o["toks"], c_tok)
    p = o["parse"]
    parsed = "None" if "err" in p else "(Some %s)" % clist(p["events"], c_event)
    out = [app("CParse", toks, parsed)]
    if "syntax" in o:
        out.append(app("CFormat", clist(o["syntax"], c_event), toks))
    return out
