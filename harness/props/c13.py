"""C13 — REPP rewriting equals ordered regex substitution with fixpoint groups."""
import re

from harness.props import repp_common as rc
from harness.props.repp_common import observe, coq_case  # noqa: F401

ID = "C13"
COQ_TARGETS = ["Props/C13.vo", "Corr/C13.vo"]
TIE_A = []
CASE_TIMEOUT = 5
RULE = ("rule programs from a grammar (33 patterns with literals, classes, quantifiers, anchors, 0-3 capture "
        "groups incl. optional/alternative/nested; templates mixing literals and \\k in any order; nested and "
        "repeated iterative groups; external modules active or not; mask-only programs) x all strings over "
        "{a,b,c,space} up to length 3 (quick) / 4 (thorough) plus longer random and hand-picked strings. "
        "Compared: every verbose trace step (input, output, applied, both maps), the result and the tokens. "
        "Non-trivial = some rule matched; distinct = canonical JSON.")
EXHAUSTIVE = {"quick": True, "thorough": True}
EXPLANATION = ("Theorems hold for every string, every match list and every program (fuel excluded by the "
               "statement). The regex engine is an oracle: the model is given the matches re.finditer "
               "produced for every (rule, string) pair the real run met.")
ASSUMPTIONS = [
    "re.finditer results are taken from the real engine (oracle table); re.sub = gaps + expansions is "
    "Python's documented semantics and is what the oracle recomputes with re.sub",
    "the `regex` module is not importable in this image: delphin.repp falls back to `re`",
    "templates use only decimal group references; \\g<..>, octal and ASCII escapes are outside the model "
    "(the implementation rejects ASCII escapes in templates altogether)",
    "programs that combine masks with later rewrite rules are outside the model (the property is about "
    "modules without masks and about a mask rule by itself)",
]
TRUSTED = []
LEVEL_TEXT = ("Proof (Coq, no axioms): for every string, match list and template the rule's output is the "
              "concatenation of gaps and template expansions (what a global regex substitution produces), "
              "rule application is total; for every program (nested/repeated iterative groups, external "
              "modules active or not) and every regex oracle the traced run computes exactly the reference "
              "interpreter's string (rules in order, groups iterated to a fixpoint, inactive modules skipped); "
              "the rule/mask steps of the trace form a chain from input to output and the last trace element "
              "carries the result; a rule without matches and a mask rule return their input with zero maps. "
              "Tied to delphin/repp.py by kernel-checked correspondence of full verbose traces.")
LEVEL_NOTE = ("The regex engine (finditer) is an oracle supplied per case from the real engine. One genuine "
              "defect (TypeError when no group participated) was repaired by a fix: commit.")
TECHNIQUE = "Coq proof (substitution lemma + mutual induction over the interpreter) + kernel-checked trace correspondence"
DESIGN_REF = "DESIGN.md section 6, C13"


def gen(rng, tier):
    return rc.gen_cases(rng, tier)


def nontrivial(c):
    if c["k"] != "repp":
        return True
    return any(re.search(r["pat"], c["s"]) for r in rc.rules_of(c["prog"]))


def _expected(items, s, active):
    for it in items:
        if it["t"] == "rule":
            s = re.sub(it["pat"], it["tmpl"], s)
        elif it["t"] == "iter":
            while True:
                o = _expected(it["items"], s, active)
                if o == s:
                    break
                s = o
        elif it["t"] == "ext":
            if it["name"] in active:
                s = _expected(it["items"], s, active)
    return s


def oracle(c):
    if c["k"] != "repp":
        return None
    r, prog = rc.build(c)
    s = c["s"]
    got = r.apply(s, **rc.call_kw(c))
    if rc.has_mask(prog):
        if any(True for _ in rc.rules_of(prog)):
            return None
        if got.string != s:
            return "a mask-only module changed the string to %r" % got.string
        if list(got.startmap) != [1] + [0] * (len(s) + 1) or list(got.endmap) != [0] * (len(s) + 1) + [-1]:
            return "a mask-only module changed the offset maps"
        return None
    want = _expected(prog, s, c["active"])
    if got.string != want:
        return "apply(%r) = %r, ordered substitution gives %r" % (s, got.string, want)
    steps = list(r.trace(s, **rc.call_kw(c)))
    if not steps or steps[-1].string != got.string:
        return "the last trace element is not the result of apply"
    cur = s
    for st in steps[:-1]:
        if hasattr(st.operation, "replacement"):
            if st.input != cur:
                return "trace step input %r is not the previous output %r" % (st.input, cur)
            cur = st.output
    if cur != got.string:
        return "the trace chain ends in %r, apply gives %r" % (cur, got.string)
    return None


def known_match(case, failure, known):
    return None
