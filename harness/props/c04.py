"""C04 — MRS -> DMRS -> MRS conversion (delphin.dmrs.from_mrs / delphin.mrs.from_dmrs)."""
from harness.coqlit import cstr, cZ, copt, clist, app, cbool, cnat
from harness.props import mrs_common as mc

ID = "C04"
COQ_TARGETS = ["Props/C04.vo", "Corr/C04.vo"]
TIE_A = []
CASE_TIMEOUT = 20
SHARD = 25
RULE = ("generated connected, scope-plausible MRSs with the intrinsic-variable property: non-scopal, qeq-scopal "
        "and label-scopal arguments, quantifiers, shared labels (modifiers of modifiers), constants, unexpressed "
        "arguments, repeated predicates, shuffled predications and constraints, arbitrary variable numbering; "
        "plus mildly ill-formed MRSs from the C07 generator (for the conversion model only). Compared: the whole "
        "DMRS (top, index, nodes with type/properties/constant, links with role/post, warning count) or "
        "IndexError; and the whole MRS that mrs.from_dmrs builds from the converted DMRS and from directly written "
        "DMRSs (arbitrary EQ links, both scopal link kinds, quantifiers). The oracle converts back and checks isomorphism, top/index and the re-conversion fixpoint. "
        "Non-trivial = at least 3 predications; distinct = canonical JSON.")
EXHAUSTIVE = {"quick": False, "thorough": False}
EXPLANATION = ("Theorems: one node per predication in order with its attributes; every link of the converted "
               "DMRS is justified by the source (argument to an intrinsic variable with EQ/NEQ by label identity, "
               "handle constraint to the first representative with H, direct label with HEQ, or MOD/EQ between a "
               "later and the first representative); mrs.from_dmrs yields one predication per node in order "
               "with predicate, constant, the label of the node's scope class and its intrinsic variable, "
               "only qeq constraints and a top handle qeq the top node's scope; both round trips keep "
               "predicates and constants in order. The round-trip isomorphism "
               "and the fixpoint of re-conversion are decided by the oracle (is_isomorphic on the real "
               "outputs), not proved.")
ASSUMPTIONS = [
    "scope.conjoin picks the label of a conjoined scope from a Python set: the labels chosen by the "
    "implementation are an input of the from_dmrs model (checked to be members of their classes); the "
    "theorem holds for every such choice",
    "the round trip is checked on the implementation by the oracle using mrs.is_isomorphic (C06) after "
    "removing unexpressed arguments and individual constraints",
    "representatives use the default priority",
]
TRUSTED = []
LEVEL_TEXT = ("Proof (Coq, no axioms) about the model of dmrs.from_mrs: nodes are exactly one per predication, in "
              "order, with predicate, constant, type and properties of the intrinsic variable; every link is "
              "justified by the source MRS in one of the four documented ways. The whole conversion (incl. "
              "representatives, top/index selection, warnings, IndexError on representative-less scopes) is tied to "
              "the code by kernel-checked correspondence, and so is mrs.from_dmrs (DMRS.scopes, arguments, "
              "quantifier pairing, VariableFactory numbering, _fill_variables) for which C04_from_dmrs proves "
              "the structure of the result; MRS->DMRS->MRS isomorphism, preservation of top/index and "
              "the re-conversion fixpoint are checked on every generated structure by the oracle.")
LEVEL_NOTE = ("Partial: the round-trip isomorphism and the re-conversion fixpoint are not proved (oracle only). F8 "
              "(representative-less scope of a 'well-formed' MRS raises IndexError) is a known finding. F34 (the RSTR link of a quantifier ended "
              "at the first representative of the restriction scope, not at the noun it binds) and F32 (a label sharer of a "
              "scopal operator whose argument lies below the operator lost its label in the round trip: MOD/EQ links were only "
              "made between scope representatives) were repaired by fix: commits; the model follows the repaired code.")
TECHNIQUE = "Coq proof (link justification, structure of from_dmrs) + kernel-checked correspondence of both conversions + round-trip oracle"
DESIGN_REF = "DESIGN.md section 6, C04"


def gen(rng, tier):
    cases = []
    n = 350 if tier == "quick" else 4000
    for i in range(n):
        if i % 5 == 4:
            m = mc.gen_any_mrs(rng)
            cases.append({"k": "conv", "m": m, "wf": False})
        else:
            m = mc.gen_wf_mrs(rng, max_nouns=3, shuffle_vars=rng.random() < 0.5, shuffle_rels=rng.random() < 0.5)
            cases.append({"k": "conv", "m": m, "wf": True})
            cases.append({"k": "back", "m": m})
    # DMRSs written directly: arbitrary EQ links (several nodes per scope, chains, cycles),
    # scopal links of both kinds, quantifiers with and without a body, constants
    from harness.props import c02
    for i in range(n // 3):
        g = c02.gen_dmrs(rng, charonly=True, connected=rng.random() < 0.6)
        for l in g["links"]:
            if l[2] is None:
                l[2] = "MOD"
        if rng.random() < 0.6:
            # make quantifiers proper: RSTR/H from a typeless node to a typed one
            for l in g["links"]:
                if l[2] == "RSTR":
                    l[3] = "H"
        cases.append({"k": "backd", "g": {"top": g["top"], "index": g["index"],
                                          "nodes": [[n["id"], n["pred"], n["type"], n["props"], n["carg"]]
                                                    for n in g["nodes"]],
                                          "links": g["links"]}})
    # a modifier that shares the label of a scopal operator and takes as its argument a predication
    # below that operator ("probably ... often sleeps"): the two share a label without an argument
    # between them, and the modifier's argument lies in the scope's descendants
    for op, mod, verb, subj in (("_probably_a_1", "_often_a_1", "_sleep_v_1", True),
                                ("neg", "_again_a_1", "_bark_v_1", True),
                                ("_probably_a_1", "_often_a_1", "_rain_v_1", False)):
        for q_first in (False, True):
            cases.append({"k": "conv", "wf": True, "m": _sharer_below(op, mod, verb, subj, q_first), "family": "sharer-below"})
    # F8, second trigger (no representative because each member reaches below the other's scopal argument)
    from harness.props import c07
    cases.append({"k": "conv", "wf": True, "m": c07.F8_FAMILY, "family": "no-representative"})
    # F34: the noun a quantifier binds is not the first representative of the restriction scope
    for fam in F34_FAMILY:
        cases.append({"k": "conv", "wf": True, "m": fam, "family": "rstr-target"})
    return cases


F34_FAMILY = [
    # "the reason for Kim leaving exists": the noun takes a co-scoped predication as its argument
    {"top": "h0", "index": "e2", "rels": [
        {"pred": "_the_q", "label": "h4", "args": [["ARG0", "x5"], ["RSTR", "h6"], ["BODY", "h8"]]},
        {"pred": "_reason_n_for", "label": "h7", "args": [["ARG0", "x5"], ["ARG1", "e8"]]},
        {"pred": "_leave_v_1", "label": "h7", "args": [["ARG0", "e8"], ["ARG1", "x9"]]},
        {"pred": "proper_q", "label": "h10", "args": [["ARG0", "x9"], ["RSTR", "h11"], ["BODY", "h12"]]},
        {"pred": "named", "label": "h13", "args": [["ARG0", "x9"], ["CARG", "Kim"]]},
        {"pred": "_exist_v_1", "label": "h1", "args": [["ARG0", "e2"], ["ARG1", "x5"]]}],
     "hcons": [["h0", "qeq", "h1"], ["h6", "qeq", "h7"], ["h11", "qeq", "h13"]], "icons": [],
     "vars": [["e2", [["TENSE", "pres"]]], ["e8", [["TENSE", "past"]]]]},
    # two nouns in the restriction, the bound one listed second
    {"top": "h0", "index": "e2", "rels": [
        {"pred": "_the_q", "label": "h4", "args": [["ARG0", "x5"], ["RSTR", "h6"], ["BODY", "h8"]]},
        {"pred": "_owner_n_1", "label": "h7", "args": [["ARG0", "x20"]]},
        {"pred": "_dog_n_1", "label": "h7", "args": [["ARG0", "x5"]]},
        {"pred": "_bark_v_1", "label": "h1", "args": [["ARG0", "e2"], ["ARG1", "x5"], ["ARG2", "x20"]]}],
     "hcons": [["h0", "qeq", "h1"], ["h6", "qeq", "h7"]], "icons": [], "vars": []},
]


def _rstr_target_misplaced(m):
    """the witness class of F34: a quantifier whose restriction scope has two or more members and whose
    bound predication (the member whose ARG0 is the quantifier's) is not the only candidate"""
    qeq = dict((h[0], h[2]) for h in m["hcons"])
    for q in m["rels"]:
        a = dict((r, v) for r, v in q["args"])
        if "RSTR" not in a:
            continue
        lbl = qeq.get(a["RSTR"], a["RSTR"])
        members = [r for r in m["rels"] if r["label"] == lbl]
        bound = [r for r in members if dict((x, y) for x, y in r["args"]).get("ARG0") == a.get("ARG0") and r is not q]
        if len(members) >= 2 and bound:
            return True
    return False


def _sharer_below(op, mod, verb, subj, q_first):
    rels = [{"pred": op, "label": "h1", "args": [["ARG0", "e2"], ["ARG1", "h4"]]},
            {"pred": mod, "label": "h1", "args": [["ARG0", "e9"], ["ARG1", "e5"]]},
            {"pred": verb, "label": "h6", "args": [["ARG0", "e5"]] + ([["ARG1", "x3"]] if subj else [])}]
    hcons = [["h0", "qeq", "h1"], ["h4", "qeq", "h6"]]
    vars_ = [["e2", []], ["e9", []], ["e5", [["TENSE", "pres"]]]]
    if subj:
        q = [{"pred": "proper_q", "label": "h7", "args": [["ARG0", "x3"], ["RSTR", "h8"], ["BODY", "h10"]]},
             {"pred": "named", "label": "h11", "args": [["ARG0", "x3"], ["CARG", "Kim"]]}]
        rels = q + rels if q_first else rels + q
        hcons.append(["h8", "qeq", "h11"])
        vars_.append(["x3", [["NUM", "sg"]]])
    return {"top": "h0", "index": "e2", "rels": rels, "hcons": hcons, "icons": [], "vars": vars_}


def _is_sharer_below(m):
    """the witness class of F32: two predications share a label, neither is an argument of the other,
    and one of them takes as a non-scopal argument a predication reached through a scopal argument of
    the other"""
    by_iv = dict((a[1], r) for r in m["rels"] for a in r["args"] if a[0] == "ARG0")
    qeq = dict((h[0], h[2]) for h in m["hcons"])
    by_label = {}
    for r in m["rels"]:
        by_label.setdefault(r["label"], []).append(r)

    def below(r):
        out, todo = [], [qeq.get(a[1], a[1]) for a in r["args"] if a[1][0] == "h"]
        while todo:
            l = todo.pop()
            for x in by_label.get(l, []):
                if x not in out:
                    out.append(x)
                    todo.extend(qeq.get(a[1], a[1]) for a in x["args"] if a[1][0] == "h")
        return out
    for l, group in by_label.items():
        for a in group:
            for b in group:
                if a is b:
                    continue
                ivs_a = [x[1] for x in a["args"] if x[0] == "ARG0"]
                if any(x[1] in ivs_a for x in b["args"] if x[0] != "ARG0"):
                    continue
                under = below(a)
                if any(by_iv.get(x[1]) in under for x in b["args"] if x[0] not in ("ARG0", "CARG") and x[1] in by_iv):
                    return True
    return False


def nontrivial(c):
    if c["k"] == "backd":
        return len(c["g"]["nodes"]) >= 3
    return len(c["m"]["rels"]) >= 3


def _mrs_json(m):
    return {"top": m.top, "index": m.index,
            "rels": [{"pred": ep.predicate, "label": ep.label, "args": [[r, v] for r, v in ep.args.items()]}
                     for ep in m.rels],
            "hcons": [[h.hi, h.relation, h.lo] for h in m.hcons],
            "icons": [[i.left, i.relation, i.right] for i in m.icons],
            "vars": [[k, [[a, b] for a, b in (ps.items() if hasattr(ps, "items") else ps)]]
                     for k, ps in m.variables.items()]}


def _observe_back(d):
    """mrs.from_dmrs on a DMRS object; the labels conjoin() chose are read off the result"""
    import warnings
    from delphin import mrs
    with warnings.catch_warnings():
        warnings.simplefilter("ignore")
        try:
            m2 = mrs.from_dmrs(d)
        except (KeyError, IndexError, ValueError, mrs.MRSError) as e:
            return {"d": _dmrs_obs(d, 0), "err": type(e).__name__}
    choice = []
    for ep in m2.rels:
        if ep.label not in choice:
            choice.append(ep.label)
    return {"d": _dmrs_obs(d, 0), "m2": _mrs_json(m2), "choice": choice}


def _dmrs_obs(d, nwarn):
    return {"top": d.top, "index": d.index,
            "nodes": [[n.id, n.predicate, n.type, [[k, v] for k, v in n.properties.items()], n.carg]
                      for n in d.nodes],
            "links": [[l.start, l.end, l.role, l.post] for l in d.links], "warnings": nwarn}


def observe(c):
    import warnings
    from delphin import dmrs
    if c["k"] == "backd":
        g = c["g"]
        d = dmrs.DMRS(g["top"], g["index"],
                      nodes=[dmrs.Node(n[0], n[1], type=n[2], properties=dict(map(tuple, n[3])), carg=n[4])
                             for n in g["nodes"]],
                      links=[dmrs.Link(*l) for l in g["links"]])
        return _observe_back(d)
    if c["k"] == "back":
        with warnings.catch_warnings():
            warnings.simplefilter("ignore")
            try:
                d = dmrs.from_mrs(mc.build_mrs(c["m"]))
            except (IndexError, KeyError, ValueError) as e:
                return {"skip": type(e).__name__}
        return _observe_back(d)
    try:
        m = mc.build_mrs(c["m"])
    except ValueError:
        return {"build": "ValueError"}
    with warnings.catch_warnings(record=True) as w:
        warnings.simplefilter("always")
        try:
            d = dmrs.from_mrs(m)
        except IndexError:
            return {"err": "IndexError"}
        except (KeyError, ValueError) as e:
            return {"err": type(e).__name__}
        nw = len([x for x in w if issubclass(x.category, dmrs.DMRSWarning)])
    return {"d": _dmrs_obs(d, nw)}


def _strip(m, d):
    """remove what DMRS cannot express: arguments that are not the intrinsic variable of any
    predication (and not handles), and individual constraints"""
    from delphin import mrs
    ivs = set(ep.iv for ep in m.rels)
    rels = []
    for ep in m.rels:
        args = {}
        for role, val in ep.args.items():
            if role in ("ARG0", "CARG") or val in ivs or val[0] == "h":
                args[role] = val
        rels.append(mrs.EP(ep.predicate, ep.label, args=args))
    used = set([m.top, m.index])
    for ep in rels:
        used.add(ep.label)
        used.update(v for r, v in ep.args.items() if r != "CARG")
    for hcn in m.hcons:
        used.update([hcn.hi, hcn.lo])
    variables = {v: p for v, p in m.variables.items() if v in used}
    return mrs.MRS(m.top, m.index, rels, hcons=m.hcons, icons=[], variables=variables)


def oracle(c):
    import warnings
    from delphin import dmrs, mrs
    if c["k"] != "conv":
        return None
    if not c.get("wf", True):
        return None
    m = mc.build_mrs(c["m"])
    if not mrs.is_well_formed(m):
        return None
    with warnings.catch_warnings():
        warnings.simplefilter("ignore")
        d = dmrs.from_mrs(m)
        m2 = mrs.from_dmrs(d)
        d2 = dmrs.from_mrs(m2)
    # links justified
    ivs = {ep.iv: ep for ep in m.rels if not ep.is_quantifier()}
    byid = {10000 + i: ep for i, ep in enumerate(m.rels)}
    hc = {h.hi: h.lo for h in m.hcons}
    labels = {}
    for ep in m.rels:
        labels.setdefault(ep.label, []).append(ep)
    for l in d.links:
        s, e = byid[l.start], byid[l.end]
        if l.role == "MOD" and l.post == "EQ":
            if s.label != e.label:
                return "MOD/EQ link between predications of different scopes"
            continue
        if l.role not in s.args:
            return "link role %s is not an argument of its start predication" % l.role
        v = s.args[l.role]
        if l.post in ("EQ", "NEQ"):
            if v != e.iv or e.is_quantifier():
                return "link %s/%s does not end at the predication whose intrinsic variable is %s" % (l.role, l.post, v)
            if (l.post == "EQ") != (s.label == e.label):
                return "EQ/NEQ does not reflect label identity"
        elif l.post == "H":
            if v not in hc or e.label != hc[v]:
                return "H link not justified by a handle constraint"
        elif l.post == "HEQ":
            if e.label != v:
                return "HEQ link does not select the target's label"
    if len(d.nodes) != len(m.rels):
        return "node count differs from predication count"
    for n, ep in zip(d.nodes, m.rels):
        if n.predicate != ep.predicate or n.carg != ep.carg:
            return "node does not carry the predicate/constant of its predication"
    # round trip
    stripped = _strip(m, d)
    if not mrs.is_isomorphic(stripped, m2):
        return "MRS -> DMRS -> MRS is not isomorphic to the original minus unexpressible parts"
    # top and index
    top1 = next((h.lo for h in m.hcons if h.hi == m.top), m.top)
    top2 = next((h.lo for h in m2.hcons if h.hi == m2.top), m2.top)
    p1 = [ep.predicate for ep in m.rels if ep.label == top1]
    p2 = [ep.predicate for ep in m2.rels if ep.label == top2]
    if sorted(p1) != sorted(p2):
        return "the top selects different predications after the round trip"
    i1 = [ep.predicate for ep in m.rels if ep.iv == m.index and not ep.is_quantifier()]
    i2 = [ep.predicate for ep in m2.rels if ep.iv == m2.index and not ep.is_quantifier()]
    if i1 != i2:
        return "the index selects a different predication after the round trip"
    # re-conversion fixpoint
    if (d2.top, d2.index) != (d.top, d.index) or [n.predicate for n in d2.nodes] != [n.predicate for n in d.nodes]:
        return "re-converting gives different nodes/top/index"
    if sorted((l.start, l.end, l.role, l.post) for l in d2.links) != \
            sorted((l.start, l.end, l.role, l.post) for l in d.links):
        return "re-converting gives a different set of links"
    return None


def known_match(case, failure, known):
    if isinstance(failure, str) and "IndexError" in failure:
        from harness.props import c07
        if c07._mutual_cycle(case["m"]) or c07._all_members_blocked(case["m"]):
            for e in known:
                if e["id"] == "F8":
                    return "F8"
    return None


def _props(ps):
    return clist(ps, lambda p: "(%s, %s)" % (cstr(p[0]), cstr(p[1])))


def _coq_dmrs(d):
    return ("{| d_top := %s; d_index := %s; d_nodes := %s; d_links := %s; d_warnings := %s |}"
            % (copt(d["top"], cZ), copt(d["index"], cZ),
               clist(d["nodes"], lambda n: "{| dn_id := %s; dn_pred := %s; dn_type := %s; dn_props := %s; "
                     "dn_carg := %s |}" % (cZ(n[0]), cstr(n[1]), copt(n[2], cstr), _props(n[3]), copt(n[4], cstr))),
               clist(d["links"], lambda l: "(%s, %s, %s, %s)" % (cZ(l[0]), cZ(l[1]), cstr(l[2]), cstr(l[3]))),
               cnat(d["warnings"])))


def coq_case(c, o):
    if "exc" in o:
        raise ValueError("harness")
    if c["k"] in ("back", "backd"):
        if "skip" in o or "err" in o:
            return None          # KeyError etc. on DMRSs outside the model (unpaired quantifier, ...)
        return app("CFromDmrs", _coq_dmrs(o["d"]), clist(o["choice"], cstr), mc.coq_mrs(o["m2"]))
    if "build" in o:
        return None
    if "err" in o:
        if o["err"] != "IndexError":
            return None
        return app("CFromMrs", mc.coq_mrs(c["m"]), "None")
    d = o["d"]
    dm = ("{| d_top := %s; d_index := %s; d_nodes := %s; d_links := %s; d_warnings := %s |}"
          % (copt(d["top"], cZ), copt(d["index"], cZ),
             clist(d["nodes"], lambda n: "{| dn_id := %s; dn_pred := %s; dn_type := %s; dn_props := %s; "
                   "dn_carg := %s |}" % (cZ(n[0]), cstr(n[1]), copt(n[2], cstr), _props(n[3]), copt(n[4], cstr))),
             clist(d["links"], lambda l: "(%s, %s, %s, %s)" % (cZ(l[0]), cZ(l[1]), cstr(l[2]), cstr(l[3]))),
             cnat(d["warnings"])))
    return app("CFromMrs", mc.coq_mrs(c["m"]), "(Some %s)" % dm)
