"""C08 — TSDB record encoding (delphin.tsdb escape/unescape/split/join/cast/
format, itsdb.Row)."""
import itertools
import re

from harness.coqlit import cstr, cZ, copt, clist, app, cbool

ID = "C08"
COQ_TARGETS = ["Props/C08.vo", "Corr/C08.vo"]
TIE_A = ["TsdbGen"]
RULE = ("exhaustive strings over the alphabet {\\ @ LF CR s n a e-acute} up to length 4 "
        "(quick) / 5 (thorough) through escape, unescape and split; random Unicode strings; "
        "records of 1-5 str/None values; integer spellings; typed joins; rows addressed by "
        "index, negative index, slice, name and iteration; date texts (every documented spelling of fixed "
        "instants, generated spellings with parts slightly out of range, mutated spellings, keywords, random "
        "texts) through cast and date-times through format; floats through format and cast. A case is non-trivial when its "
        "input contains a backslash, '@', newline, None/empty value, a sign or a slice/negative "
        "index; distinct = distinct canonical JSON of the case.")
EXHAUSTIVE = {"quick": True, "thorough": True}
EXPLANATION = ("Theorems are over all strings/records/integers (no bound). The correspondence "
               "runs the model inside the Coq kernel on the inputs the implementation was "
               "run on; the exhaustive small-alphabet sweep is complete up to the stated length.")
ASSUMPTIONS = [
    "float clause: float(repr(x)) == x for finite x is the Python language guarantee; floats "
    "are not modelled (sampled by the oracle only)",
    "int(): modelled on the class [+-]?[0-9]+ and on strings containing an ASCII letter or "
    "punctuation (rejected); whitespace/underscore/non-ASCII-digit spellings are outside the model",
    "dates: the model (Model/TsdbDate.v) is the two regular expressions of _parse_datetime with their "
    "backtracking order, _date_fix and what strptime accepts on the string it builds (numeric ranges and the "
    "calendar), over ASCII; non-ASCII digits, letters and white space are outside the model; the value of "
    "'now'/':today' is the clock's and only its kind is compared",
]
TRUSTED = ["Tie A translator harness/translate/tsdb_gen.py (escape chain, unescape table, "
           "FIELD_DELIMITER, TSDB_CODED_ATTRIBUTES regenerated from the source on every run)"]

ALPHA = ["\\", "@", "\n", "\r", "s", "n", "a", "\u00e9"]
DT = {":integer": "TInt", ":string": "TStr", ":float": "TFloat", ":date": "TDate"}


# ------------------------------------------------------------------ generation

def _rand_str(rng, maxlen=8):
    n = rng.randrange(0, maxlen + 1)
    out = []
    for _ in range(n):
        r = rng.random()
        if r < 0.45:
            out.append(rng.choice(ALPHA))
        elif r < 0.7:
            out.append(chr(rng.randrange(32, 127)))
        elif r < 0.8:
            out.append(rng.choice(["\t", "\x0b", "\x0c", "\x1c", "\x85", "\u2028", "\u2029", " ", "\x00"]))
        else:
            cp = rng.randrange(0x80, 0x110000)
            if 0xD800 <= cp <= 0xDFFF:
                cp = 0xE000
            out.append(chr(cp))
    return "".join(out)


def _rand_val(rng):
    r = rng.random()
    if r < 0.2:
        return None
    if r < 0.3:
        return ""
    return _rand_str(rng, 5)


def _rand_int_str(rng):
    r = rng.random()
    if r < 0.5:
        z = rng.choice([0, 1, -1, 7, 10, -10, 99, 100, 2**31, -2**63, 10**30 + 7,
                        rng.randrange(-10**6, 10**6), rng.randrange(-10**25, 10**25)])
        s = str(z)
        if z >= 0 and rng.random() < 0.2:
            s = "+" + s
        if rng.random() < 0.15:
            s = s.replace("-", "-00") if s.startswith("-") else "00" + s
        return s
    if r < 0.6:
        return rng.choice(["-", "+", "--1", "+-1", "1-", "1+1", "-+3"])
    return "".join(rng.choice("0123456789abcxyz.-+e") for _ in range(rng.randrange(1, 6)))


FIELD_NAMES = ["i-id", "i-input", "i-wf", "i-difficulty", "polarity", "i-length", "x"]


def _rand_fields(rng, n):
    fs = []
    for _ in range(n):
        fs.append([rng.choice(FIELD_NAMES), rng.choice([":integer", ":string", ":string"])])
    return fs


def _rand_typed_val(rng, dt):
    r = rng.random()
    if r < 0.2:
        return None
    if dt == ":integer":
        if r < 0.9:
            return rng.choice([0, -1, 1, 42, -7, 10**20, rng.randrange(-1000, 1000)])
        return rng.choice(["abc", "1x", ""])
    return _rand_str(rng, 4)


def gen(rng, tier):
    cases = []
    maxlen = 4 if tier == "quick" else 5
    for n in range(0, maxlen + 1):
        for tup in itertools.product(ALPHA, repeat=n):
            s = "".join(tup)
            cases.append({"k": "escape", "s": s})
            cases.append({"k": "unescape", "s": s})
            if n <= 4:
                cases.append({"k": "split", "s": s})
    # exhaustive short records over a small value set
    vals = [None, "", "a", "@", "\\", "\n", "\\s", "a@b"]
    for n in (1, 2):
        for tup in itertools.product(vals, repeat=n):
            cases.append({"k": "join", "vs": list(tup)})
    nrand = 600 if tier == "quick" else 6000
    for _ in range(nrand):
        s = _rand_str(rng, 12)
        cases.append({"k": "escape", "s": s})
        cases.append({"k": "unescape", "s": s})
        cases.append({"k": "split", "s": s + rng.choice(["", "\n", "\n\n"])})
        cases.append({"k": "join", "vs": [_rand_val(rng) for _ in range(rng.randrange(1, 6))]})
    cases.append({"k": "join", "vs": []})
    for _ in range(nrand // 2):
        cases.append({"k": "cast", "dt": ":integer", "raw": _rand_int_str(rng)})
        cases.append({"k": "cast", "dt": rng.choice([":string", ":integer"]),
                      "raw": rng.choice([None, "", _rand_str(rng, 4) or "x"])})
        z = rng.choice([0, -1, 1, rng.randrange(-10**9, 10**9), rng.randrange(-10**40, 10**40)])
        cases.append({"k": "format", "dt": ":integer", "v": z, "d": None})
        cases.append({"k": "format", "dt": rng.choice([":integer", ":string", ":date", ":float"]),
                      "v": None, "d": rng.choice([None, None, "1", ""])})
        cases.append({"k": "format", "dt": ":string", "v": _rand_str(rng, 5), "d": None})
    for n in FIELD_NAMES:
        for dt in DT:
            cases.append({"k": "default", "name": n, "dt": dt})
    # dates and date-times at second resolution (oracle only): every combination of zero and
    # non-zero hour/minute/second on boundary days, and random ones
    days = [(1000, 1, 1), (1999, 12, 31), (2000, 2, 29), (2018, 2, 1), (9999, 12, 31), (2024, 7, 4)]
    for (y, mo, d) in days:
        for h in (0, 7, 23):
            for mi in (0, 5, 59):
                for sec in (0, 1, 59):
                    cases.append({"k": "fdate", "ymd": [y, mo, d], "hms": [h, mi, sec]})
        cases.append({"k": "fdate", "ymd": [y, mo, d], "hms": None})
    for _ in range(nrand // 10):
        cases.append({"k": "fdate", "ymd": [rng.randrange(1000, 10000), rng.randrange(1, 13), rng.randrange(1, 29)],
                      "hms": [rng.randrange(0, 24), rng.randrange(0, 60), rng.randrange(0, 60)]})
    # every documented spelling of an instant denotes that instant (oracle only)
    for inst in [(2018, 2, 1, 0, 0, 0), (1999, 12, 31, 23, 59, 59), (2000, 2, 29, 7, 5, 0), (1993, 1, 1, 0, 0, 1),
                 (2092, 10, 12, 10, 51, 0), (1000, 1, 1, 0, 0, 0), (9999, 12, 31, 0, 0, 59)]:
        cases.append({"k": "dspell", "inst": list(inst)})
    for _ in range(nrand // 20):
        cases.append({"k": "dspell", "inst": [rng.randrange(1000, 10000), rng.randrange(1, 13), rng.randrange(1, 29),
                                              rng.randrange(0, 24), rng.randrange(0, 60), rng.choice([0, rng.randrange(0, 60)])]})
    # date texts for the correspondence with the date model: every spelling of some instants,
    # generated and mutated spellings, keywords, random texts
    for inst in [(2018, 2, 1, 0, 0, 0), (1999, 12, 31, 23, 59, 59), (2000, 2, 29, 7, 5, 0), (1993, 1, 1, 0, 0, 1)]:
        for sp in _spellings(*inst):
            cases.append({"k": "dcast", "s": sp})
    for sp in ["10-6-2002", "8-sep-1999", "apr-95", "01-dec-02 (15:31:01)", "2008-10-12 10:51", "30-feb-2001",
               "29-feb-1900", "29-feb-2000", "31-4-2010", "1-1-0000", "0000-1-1", "1-1-92", "1-1-93", "201-18",
               "2018-1-1 24:00:00", "2018-1-1 23:59:60", "2018-13-1", "2018-1-32", "12-2018", "10-2018"]:
        cases.append({"k": "dcast", "s": sp})
    for _ in range(nrand):
        t = _date_text(rng)
        if t:
            cases.append({"k": "dcast", "s": t})
    # floats: casting the formatted form returns the value (oracle only)
    for x in [0.0, -0.0, 1.5, -2.25, 0.1, 1e-05, 1e+20, 123456789.125, 3.141592653589793, 5e-324, 1.7976931348623157e+308,
              2.05e-3, 100.0, -1e-10]:
        cases.append({"k": "ffloat", "x": x})
    for _ in range(nrand // 20):
        cases.append({"k": "ffloat", "x": rng.uniform(-1e6, 1e6) * 10 ** rng.randrange(-12, 12)})
    for _ in range(nrand // 2):
        nf = rng.randrange(1, 5)
        fs = _rand_fields(rng, nf)
        nv = nf if rng.random() < 0.9 else rng.randrange(0, 6)
        vs = [_rand_typed_val(rng, fs[i % nf][1]) for i in range(nv)]
        cases.append({"k": "joint", "fs": fs, "vs": vs})
        cases.append({"k": "rowiter", "fs": fs, "vs": vs})
        cases.append({"k": "rowint", "fs": fs, "vs": vs, "i": rng.randrange(-6, 6)})
        sl = [rng.choice([None, None, rng.randrange(-7, 7)]) for _ in range(3)]
        if sl[2] == 0 and rng.random() < 0.8:
            sl[2] = None
        cases.append({"k": "rowslice", "fs": fs, "vs": vs, "sl": sl})
        cases.append({"k": "rowname", "fs": fs, "vs": vs,
                      "name": rng.choice(FIELD_NAMES + [fs[0][0], "nope"])})
    return cases


def nontrivial(c):
    k = c["k"]
    if k in ("escape", "unescape", "split"):
        return any(ch in c["s"] for ch in "\\@\n")
    if k == "join":
        return any(v in (None, "") or any(ch in v for ch in "\\@\n") for v in c["vs"])
    if k == "cast":
        return bool(c["raw"])
    if k in ("format", "fdate", "dspell", "ffloat", "dcast"):
        return True
    if k in ("rowint", "rowslice", "rowname", "rowiter", "joint"):
        return True
    return False


# ------------------------------------------------------------------ implementation side

def _val_out(v):
    import datetime
    if v is None or isinstance(v, (str, int)) and not isinstance(v, bool):
        return {"v": v}
    if isinstance(v, float):
        return {"float": v.hex()}
    if isinstance(v, (datetime.datetime, datetime.date)):
        return {"date": v.isoformat()}
    return {"other": repr(v)}


def _fields(fs):
    from delphin import tsdb
    return [tsdb.Field(n, dt) for n, dt in fs]


MONS = ["jan", "feb", "mar", "apr", "may", "jun", "jul", "aug", "sep", "oct", "nov", "dec"]


def _spellings(y, mo, d, h, mi, sec):
    """the documented ways of writing one instant: DD-MM-YY[YY] with the month as a number or a
    three-letter abbreviation, the day optional (the first), two-digit years from 1993 to 2092,
    YYYY-MM-DD, and an optional time HH:MM[:SS], optionally in parentheses"""
    mon = MONS[mo - 1]
    dates = ["%d-%d-%d" % (d, mo, y), "%02d-%02d-%d" % (d, mo, y), "%d-%s-%d" % (d, mon, y),
             "%d-%s-%d" % (d, mon.upper(), y), "%d-%d-%d" % (y, mo, d), "%d-%02d-%02d" % (y, mo, d),
             "%d-%s-%d" % (y, mon, d)]
    if 1993 <= y <= 2092:
        dates += ["%d-%d-%02d" % (d, mo, y % 100), "%d-%s-%02d" % (d, mon, y % 100)]
    if d == 1:
        dates += ["%s-%d" % (mon, y), "%d-%d" % (mo, y), "%d-%d" % (y, mo)]
    times = [""] if (h, mi, sec) == (0, 0, 0) else []
    times += [" %02d:%02d:%02d" % (h, mi, sec), " (%02d:%02d:%02d)" % (h, mi, sec), "(%02d:%02d:%02d)" % (h, mi, sec)]
    if sec == 0:
        times += [" %02d:%02d" % (h, mi), " (%02d:%02d)" % (h, mi)]
    return [a + b for a in dates for b in times]


D_ALPHA = "0123456789-: ()janJ_x\t"


def _date_text(rng):
    """a date text: a spelling built from parts (valid or slightly out of range), a mutated one,
    a keyword, or a short random text over the characters dates are made of"""
    def spell():
        y = rng.choice([rng.randrange(1000, 10000), rng.randrange(1990, 2100), rng.randrange(0, 1000)])
        mo, d = rng.randrange(0, 14), rng.randrange(0, 33)
        h, mi, sec = rng.randrange(0, 25), rng.randrange(0, 61), rng.randrange(0, 63)
        mon = MONS[(mo - 1) % 12]
        ms = rng.choice([str(mo), "%02d" % mo, mon, mon, mon.upper(), mon.capitalize(), "xyz", "j_n", "1a"])
        ds = rng.choice([str(d), "%02d" % d])
        ys = rng.choice(["%04d" % y, "%04d" % y, "%02d" % (y % 100), str(y)])
        dp = rng.choice(["%s-%s-%s" % (ds, ms, ys), "%s-%s" % (ms, ys), "%04d-%s-%s" % (y, ms, ds),
                         "%04d-%s" % (y, ms), "%s-%s-%s" % (ys, ms, ds)])
        tp = rng.choice(["", "", " %02d:%02d:%02d" % (h, mi, sec), " (%02d:%02d:%02d)" % (h, mi, sec),
                         "(%02d:%02d:%02d)" % (h, mi, sec), " %02d:%02d" % (h, mi), "  (%02d:%02d)" % (h, mi),
                         "%02d:%02d:%02d" % (h, mi, sec), " %d:%02d" % (h, mi), "\t(%02d:%02d:%02d" % (h, mi, sec)])
        return dp + tp
    r = rng.random()
    if r < 0.5:
        return spell()
    if r < 0.85:
        t = list(spell())
        for _ in range(rng.randrange(1, 3)):
            q = rng.random()
            if q < 0.4 and t:
                del t[rng.randrange(len(t))]
            elif q < 0.8:
                t.insert(rng.randrange(len(t) + 1), rng.choice(D_ALPHA))
            elif t:
                t[rng.randrange(len(t))] = rng.choice(D_ALPHA)
        return "".join(t)
    if r < 0.9:
        return rng.choice([":today", "now", "today x", ":now", "to", "nowhere", ":x", "nov-2018", "now-2018"])
    return "".join(rng.choice(D_ALPHA) for _ in range(rng.randrange(1, 12)))


def _fdate_value(c):
    import datetime
    if c["hms"] is None:
        return datetime.date(*c["ymd"])
    return datetime.datetime(*(c["ymd"] + c["hms"]))


def observe(c):
    from delphin import tsdb, itsdb
    k = c["k"]
    if k == "fdate":
        return {"r": tsdb.format(":date", _fdate_value(c))}
    if k == "dspell":
        return {"r": len(_spellings(*c["inst"]))}
    if k == "dcast":
        import datetime
        import warnings
        with warnings.catch_warnings():
            warnings.simplefilter("ignore")
            before = datetime.datetime.now()
            try:
                v = tsdb.cast(":date", c["s"])
            except KeyError:
                return {"r": ["keyerror"]}
        if v is None:
            return {"r": ["none"]}
        if v.microsecond or before <= v <= datetime.datetime.now():
            return {"r": ["now"]}
        return {"r": ["dt", v.year, v.month, v.day, v.hour, v.minute, v.second]}
    if k == "ffloat":
        return {"r": tsdb.format(":float", c["x"])}
    try:
        if k == "escape":
            return {"r": tsdb.escape(c["s"])}
        if k == "unescape":
            return {"r": tsdb.unescape(c["s"])}
        if k == "split":
            return {"r": list(tsdb.split(c["s"]))}
        if k == "join":
            return {"r": tsdb.join(c["vs"])}
        if k == "cast":
            return {"r": _val_out(tsdb.cast(c["dt"], c["raw"]))}
        if k == "format":
            return {"r": tsdb.format(c["dt"], c["v"], default=c["d"])}
        if k == "default":
            return {"r": tsdb.Field(c["name"], c["dt"]).default}
        if k == "joint":
            return {"r": tsdb.join(c["vs"], _fields(c["fs"]))}
        row = itsdb.Row(_fields(c["fs"]), c["vs"])
        if k == "rowiter":
            return {"r": [_val_out(v) for v in row]}
        if k == "rowint":
            return {"r": _val_out(row[c["i"]])}
        if k == "rowslice":
            return {"r": [_val_out(v) for v in row[slice(*c["sl"])]]}
        if k == "rowname":
            return {"r": _val_out(row[c["name"]])}
    except Exception as e:
        return {"exc": type(e).__name__}
    raise ValueError("unknown kind " + k)


_MALFORMED = re.compile(r'\\(?![\\sn])', re.S)


def _malformed(t):
    # a backslash not followed by \, s or n (scanning pairs left to right)
    i = 0
    while i < len(t):
        if t[i] == "\\":
            if i + 1 >= len(t) or t[i + 1] not in "\\sn":
                return True
            i += 2
        else:
            i += 1
    return False


def oracle(c):
    """The property stated directly on the implementation."""
    from delphin import tsdb, itsdb
    k = c["k"]
    if k == "escape":
        s = c["s"]
        e = tsdb.escape(s)
        if "@" in e or "\n" in e:
            return "escape(%r) contains a raw delimiter/newline: %r" % (s, e)
        if tsdb.unescape(e) != s:
            return "unescape(escape(%r)) = %r" % (s, tsdb.unescape(e))
        return None
    if k == "unescape":
        t = c["s"]
        try:
            u = tsdb.unescape(t)
        except tsdb.TSDBError:
            return None if _malformed(t) else "unescape(%r) rejected a well-formed string" % t
        if _malformed(t):
            return "unescape(%r) accepted a malformed escape: %r" % (t, u)
        if "@" not in t and "\n" not in t and tsdb.escape(u) != t:
            return "escape(unescape(%r)) = %r" % (t, tsdb.escape(u))
        return None
    if k == "join":
        vs = c["vs"]
        if not vs:
            return None
        line = tsdb.join(vs)
        if "\n" in line:
            return "join(%r) contains a newline" % (vs,)
        if line.count("@") != len(vs) - 1:
            return "join(%r) has %d delimiters" % (vs, line.count("@"))
        want = tuple(None if v in ("", None) else v for v in vs)
        for tail in ("", "\n"):
            got = tsdb.split(line + tail)
            if got != want:
                return "split(join(%r)%r) = %r" % (vs, tail, got)
        return None
    if k == "dspell":
        import datetime
        import warnings
        want = datetime.datetime(*c["inst"])
        with warnings.catch_warnings():
            warnings.simplefilter("ignore")
            for sp in _spellings(*c["inst"]):
                got = tsdb.cast(":date", sp)
                if got != want:
                    return "cast(':date', %r) = %r, the spelling denotes %r" % (sp, got, want)
        return None
    if k == "ffloat":
        x = c["x"]
        got = tsdb.cast(":float", tsdb.format(":float", x))
        if got != x or str(got) != str(x):
            return "cast(':float', format(':float', %r)) = %r" % (x, got)
        return None
    if k == "fdate":
        import datetime
        v = _fdate_value(c)
        want = v if isinstance(v, datetime.datetime) else datetime.datetime(v.year, v.month, v.day)
        text = tsdb.format(":date", v)
        got = tsdb.cast(":date", text)
        if got != want:
            return "cast(':date', format(':date', %r)) = %r (text %r)" % (v, got, text)
        fs = [tsdb.Field("i-id", ":integer"), tsdb.Field("i-date", ":date")]
        back = tsdb.split(tsdb.join([1, v], fs), fs)
        if back != (1, want):
            return "split(join([1, %r])) = %r" % (v, back)
        return None
    if k == "format":
        if c["dt"] == ":integer" and isinstance(c["v"], int):
            if tsdb.cast(":integer", tsdb.format(":integer", c["v"])) != c["v"]:
                return "cast(format(%r)) differs" % c["v"]
        if c["dt"] == ":string" and isinstance(c["v"], str) and c["v"] != "":
            if tsdb.cast(":string", tsdb.format(":string", c["v"])) != c["v"]:
                return "cast(format(%r)) differs" % c["v"]
        return None
    if k in ("rowiter", "rowint", "rowslice", "rowname"):
        fs = _fields(c["fs"])
        try:
            row = itsdb.Row(fs, c["vs"])
            full = [tsdb.cast(f.datatype, d) for f, d in zip(fs, row.data)]
        except Exception:
            return None  # ill-typed data: outside the claim
        if list(row) != full:
            return "iteration differs from the cast of the stored raw data"
        if k == "rowint":
            try:
                want = ("ok", full[c["i"]])
            except IndexError:
                want = ("IndexError",)
            try:
                got = ("ok", row[c["i"]])
            except IndexError:
                got = ("IndexError",)
            if got != want:
                return "row[%d] = %r, expected %r" % (c["i"], got, want)
        if k == "rowslice":
            try:
                want = tuple(full[slice(*c["sl"])])
            except ValueError:
                return None
            if row[slice(*c["sl"])] != want:
                return "row[%r] = %r, expected %r" % (c["sl"], row[slice(*c["sl"])], want)
        if k == "rowname":
            names = [f.name for f in fs]
            if c["name"] in names:
                idx = [i for i, f in enumerate(fs) if f.name == c["name"]]
                if row[c["name"]] not in [full[i] for i in idx]:
                    return "row[%r] is not the value of a column of that name" % c["name"]
        return None
    return None


def known_match(case, failure, known):
    return None


# ------------------------------------------------------------------ Coq side

def _raw(v):
    return copt(v, cstr)


def _value(v):
    if v is None:
        return "VNone"
    if isinstance(v, bool):
        raise ValueError
    if isinstance(v, int):
        return app("VInt", cZ(v))
    if isinstance(v, str):
        return app("VStr", cstr(v))
    raise ValueError("value not modelled")


def _vout(o):
    if "v" not in o:
        raise ValueError("observed value not modelled")
    return _value(o["v"])


def _fs(fs):
    return clist(fs, lambda f: "{| f_name := %s; f_type := %s |}" % (cstr(f[0]), DT[f[1]]))


def _res(o, f):
    """observed -> option: exception = None"""
    if "exc" in o:
        if o["exc"].startswith("Harness") or o["exc"] == "Timeout":
            raise ValueError("harness problem")
        return "None"
    return "(Some %s)" % f(o["r"])


def coq_case(c, o):
    k = c["k"]
    if k == "dcast":
        r = o["r"]
        res = {"none": "DNone", "now": "DNow", "keyerror": "DKeyError"}.get(r[0]) or (
            "(DSome {| dy := %d; dmo := %d; dd := %d; dh := %d; dmi := %d; TsdbDate.ds := %d |})" % tuple(r[1:]))
        return app("CDate", cstr(c["s"]), res)
    if k == "fdate":
        if c["ymd"][0] < 1000:
            return None
        h, mi, sec = c["hms"] or [0, 0, 0]
        return app("CFmtDate", "{| dy := %d; dmo := %d; dd := %d; dh := %d; dmi := %d; TsdbDate.ds := %d |}" % (
            tuple(c["ymd"]) + (h, mi, sec)), cstr(o["r"]))
    if k in ("dspell", "ffloat"):
        return None          # decided by the oracle (the spellings are also sent to the model as dcast cases)
    if k == "escape":
        return app("CEscape", cstr(c["s"]), cstr(o["r"]))
    if k == "unescape":
        return app("CUnescape", cstr(c["s"]), _res(o, cstr))
    if k == "split":
        return app("CSplit", cstr(c["s"]), _res(o, lambda r: clist(r, _raw)))
    if k == "join":
        return app("CJoin", clist(c["vs"], _raw), cstr(o["r"]))
    if k == "cast":
        if c["dt"] not in (":integer", ":string"):
            return None
        raw = c["raw"]
        if c["dt"] == ":integer" and isinstance(raw, str) and \
                (raw != raw.strip() or "_" in raw or any(ord(ch) > 127 for ch in raw)):
            # int() also accepts surrounding white space, digit-group underscores and non-ASCII digits;
            # the model covers sign + ASCII digits (what format writes), the rest is not modelled
            raise ValueError("unmodelled int() syntax")
        return app("CCast", DT[c["dt"]], _raw(c["raw"]), _res(o, _vout))
    if k == "format":
        return app("CFormat", DT[c["dt"]], _value(c["v"]), copt(c["d"], cstr), cstr(o["r"]))
    if k == "default":
        return app("CDefault", cstr(c["name"]), DT[c["dt"]], cstr(o["r"]))
    vs = clist(c["vs"], _value)
    if k == "joint":
        return app("CJoinT", _fs(c["fs"]), vs, _res(o, cstr))
    if k == "rowiter":
        return app("CRowIter", _fs(c["fs"]), vs, _res(o, lambda r: clist(r, _vout)))
    if k == "rowint":
        return app("CRowInt", _fs(c["fs"]), vs, cZ(c["i"]), _res(o, _vout))
    if k == "rowslice":
        sl = "{| sl_start := %s; sl_stop := %s; sl_step := %s |}" % tuple(
            copt(x, cZ) for x in c["sl"])
        return app("CRowSlice", _fs(c["fs"]), vs, sl, _res(o, lambda r: clist(r, _vout)))
    if k == "rowname":
        return app("CRowName", _fs(c["fs"]), vs, cstr(c["name"]), _res(o, _vout))
    return None


LEVEL_TEXT = ("Proof (Coq 8.16, kernel-checked, no axioms): escape/unescape mutually inverse for all "
              "strings, exact rejection set of unescape, delimiter/newline safety, split(join vs) for "
              "all records, delimiter count, injectivity, integer and string cast/format round trip "
              "for all Z / all non-empty strings, and all four Row access paths equal the cast of the "
              "stored data for every index and slice (slice.indices semantics modelled exactly). The "
              "model is tied to delphin/tsdb.py by regenerated kernels (Tie A) and by kernel-evaluated "
              "correspondence on an exhaustive small-alphabet sweep plus random inputs (Tie B). "
              "Dates: casting the formatted form of any valid date-time of the years 1000-9999 returns it, and "
              "every documented spelling of an instant (DD-MM-YY[YY] with optional day, YYYY-MM[-DD], numeric or "
              "named month in any letter case, two-digit years 1993-2092, optional time with or without seconds "
              "and parenthesis) denotes that instant - theorems over a model of the two regular expressions of "
              "_parse_datetime, _date_fix and strptime's calendar check, tied by correspondence on date texts. "
              "Partial: the float clause rests on float(repr(x))==x.")
LEVEL_NOTE = ("Trusted: Coq kernel + vm_compute; the hand model of split/join/cast/format/Row validated "
              "by correspondence; int() modelled on [+-]?[0-9]+ only; floats not modelled (language "
              "guarantee, oracle-checked on formatted values); the date model is hand-written (ASCII; the value of "
              "now/today is the clock's) and validated by correspondence.")
TECHNIQUE = "Coq proof over executable Gallina model + regenerated kernels + kernel-checked correspondence"
DESIGN_REF = "DESIGN.md section 6, C08"
