"""C17 — MultiHierarchy (delphin.hierarchy) stays a rooted DAG; rejected
updates change nothing; normaliser invariance."""
import itertools

from harness.coqlit import cstr, cN, copt, clist, app, cbool, cnat

ID = "C17"
COQ_TARGETS = ["Props/C17.vo", "Corr/C17.vo"]
TIE_A = []
RULE = ("update histories on MultiHierarchy(top 't'), identity and str.lower normalisers; an "
        "enumerated stream of all single batches of <=2 new nodes {c,d} with parent tuples of "
        "length 0..2 over {t,a,b,c,d} on three preset hierarchies, in both dict orders, plus "
        "random histories of 1-4 batches (parents as strings or tuples, data maps); after every "
        "update the full query set over a 7-identifier universe is compared. Non-trivial = the "
        "history contains a rejected update or a multi-parent node; distinct = canonical JSON.")
EXHAUSTIVE = {"quick": False, "thorough": False}
EXPLANATION = ("Theorems hold for every update history and every normaliser function (no bound). "
               "children/descendants are modelled as the derived inverse of parents/ancestors; that "
               "the stored child sets of the implementation agree is checked by correspondence on "
               "every snapshot.")
ASSUMPTIONS = [
    "identifiers in the correspondence are ASCII; str.lower is modelled as ASCII lower-casing",
    "the model keeps the hierarchy newest-first and computes ancestors by structural recursion "
    "over earlier entries; equality with the implementation's recursive _ancestors/descendants "
    "is validated on every reachable state the generator visits",
    "data values are opaque tokens (small integers)",
]
TRUSTED = []
LEVEL_TEXT = ("Proof (Coq, no axioms): for every normaliser and every sequence of update calls the "
              "reachable state satisfies the invariant (unique nodes, non-empty parents inserted "
              "earlier, no redundant parent); under it ancestors = transitive closure of parent, "
              "descendants its inverse, acyclicity, every node descends from top, subsumption is a "
              "partial order with top greatest, compatibility is symmetric and equals having a common "
              "descendant-or-self; a rejected update returns the identical state; the fuel bound of "
              "the insertion loop is never reached; all queries factor through the normaliser. Tied to "
              "delphin/hierarchy.py by kernel-checked correspondence of full query snapshots after "
              "every update of enumerated and random histories.")
LEVEL_NOTE = ("Trusted: Coq kernel + vm_compute; hand model of update/validate_update/_get_eligible/"
              "_validate_parentage validated by correspondence; child sets modelled as derived view. "
              "Two genuine defects (shared child sets; parentless node accepted) were repaired by fix: "
              "commits and the model follows the repaired code.")
TECHNIQUE = "Coq proof (inductive invariant over update histories) + kernel-checked correspondence"
DESIGN_REF = "DESIGN.md section 6, C17"

UNIV = ["t", "a", "b", "c", "d", "A", "zz"]


def _presets():
    return [
        [],
        [{"sub": [["a", "t"]], "data": []}],
        [{"sub": [["a", "t"], ["b", "a"]], "data": [["a", 1]]}],
        [{"sub": [["a", "t"], ["b", "t"]], "data": []}],
    ]


def gen(rng, tier):
    cases = []
    names = ["t", "a", "b", "c", "d"]
    opts = [None]
    for n in (0, 1, 2):
        for tup in itertools.product(names, repeat=n):
            opts.append(list(tup))
    presets = _presets()
    # enumerated single batches over new nodes c, d
    count = 0
    for pre in presets[1:]:
        for pc in opts:
            for pd in opts:
                if pc is None and pd is None:
                    continue
                for order in (0, 1):
                    ents = []
                    if pc is not None:
                        ents.append(["c", pc])
                    if pd is not None:
                        ents.append(["d", pd])
                    if order:
                        if len(ents) < 2:
                            continue
                        ents.reverse()
                    count += 1
                    if tier == "quick" and count % 3 != 0:
                        continue
                    ops = list(pre) + [{"sub": ents, "data": []},
                                       {"sub": [["d", ["a"]]], "data": [["d", 5]]}]
                    cases.append({"k": "hist", "lower": False, "top": "t", "univ": UNIV, "ops": ops})
    nrand = 700 if tier == "quick" else 12000
    pool = ["a", "b", "c", "d", "e"]
    for _ in range(nrand):
        lower = rng.random() < 0.4
        ops = []
        for _ in range(rng.randrange(1, 5)):
            ents = []
            for _ in range(rng.randrange(0, 4)):
                nid = rng.choice(pool + (["A", "B"] if lower else []))
                k = rng.choice([0, 1, 1, 1, 2, 2, 3])
                ps = [rng.choice(["t"] + pool + (["T", "A"] if lower else []) + ["q"])
                      for _ in range(k)]
                if rng.random() < 0.5:
                    ps = rng.choice([" ", "  ", "\t"]).join(ps)
                    if rng.random() < 0.2:
                        ps = " " + ps + " "
                if nid not in [e[0] for e in ents]:
                    ents.append([nid, ps])
            data = []
            if rng.random() < 0.4:
                for _ in range(rng.randrange(1, 3)):
                    k = rng.choice(["t"] + pool + ["q", "A"])
                    if k not in [d[0] for d in data]:
                        data.append([k, rng.randrange(0, 9)])
            ops.append({"sub": ents, "data": data})
        cases.append({"k": "hist", "lower": lower, "top": rng.choice(["t", "T"]) if lower else "t",
                      "univ": UNIV + (["B", "T"] if lower else []), "ops": ops})
    # with a normalizer: a valid hierarchy, then a batch that names an existing node (or the same new
    # node twice) under another spelling, with parents that would be acceptable for a new node
    base = {"sub": [["a", ["t"]], ["b", ["t"]], ["c", ["a"]]], "data": []}
    for again in ("A", "C", "B", "c", "T"):
        for ps in (["t"], ["b"], ["T"], ["a", "b"], "b"):
            for top in ("t", "T"):
                cases.append({"k": "hist", "lower": True, "top": top, "univ": UNIV + ["B", "T", "C"],
                              "ops": [base, {"sub": [[again, ps]], "data": []},
                                      {"sub": [["d", ["c"]]], "data": [["d", 1]]}]})
    for pair in (["e", "E"], ["E", "e"]):
        cases.append({"k": "hist", "lower": True, "top": "t", "univ": UNIV + ["B", "T", "E"],
                      "ops": [base, {"sub": [[pair[0], ["a"]], [pair[1], ["b"]]], "data": []}]})
    return cases


def nontrivial(c):
    for o in c["ops"]:
        for nid, ps in o["sub"]:
            n = len(ps.split()) if isinstance(ps, str) else len(ps)
            if n != 1:
                return True
    return len(c["ops"]) > 2


# ------------------------------------------------------------------ implementation side

def _mk(c):
    from delphin.hierarchy import MultiHierarchy
    return MultiHierarchy(c["top"], normalize_identifier=(str.lower if c["lower"] else None))


def _sub(o):
    return {nid: (ps if isinstance(ps, str) else tuple(ps)) for nid, ps in o["sub"]}


def _q(f, *a):
    try:
        return f(*a)
    except KeyError:
        return "KeyError"


def _snapshot(h, univ):
    nodes = []
    for x in univ:
        par = _q(h.parents, x)
        ch = _q(h.children, x)
        an = _q(h.ancestors, x)
        de = _q(h.descendants, x)
        try:
            item = {"d": h[x]}
        except KeyError:
            item = "KeyError"
        nodes.append([x in h,
                      None if par == "KeyError" else list(par),
                      None if ch == "KeyError" else sorted(ch),
                      None if an == "KeyError" else sorted(an),
                      None if de == "KeyError" else sorted(de),
                      item])
    pairs = []
    for a in univ:
        for b in univ:
            s = _q(h.subsumes, a, b)
            cp = _q(h.compatible, a, b)
            pairs.append([None if s == "KeyError" else bool(s),
                          None if cp == "KeyError" else bool(cp)])
    return {"iter": list(h), "len": len(h), "nodes": nodes, "pairs": pairs,
            "items": [[k, v] for k, v in h.items()]}


def _apply(h, o):
    from delphin.hierarchy import HierarchyError
    try:
        h.update(_sub(o), dict((k, v) for k, v in o["data"]))
        return "ok"
    except HierarchyError:
        return "rej"
    except Exception as e:
        return "exc:" + type(e).__name__


def observe(c):
    h = _mk(c)
    snaps = []
    for o in c["ops"]:
        st = _apply(h, o)
        s = _snapshot(h, c["univ"])
        s["st"] = st
        snaps.append(s)
    return {"snaps": snaps}


def oracle(c):
    """The property stated directly on the implementation."""
    h = _mk(c)
    univ = c["univ"]
    norm = (str.lower if c["lower"] else (lambda x: x))
    prev = _snapshot(h, univ)
    for n, o in enumerate(c["ops"]):
        st = _apply(h, o)
        if st.startswith("exc"):
            return "update %d raised %s instead of HierarchyError" % (n, st)
        cur = _snapshot(h, univ)
        if st == "rej" and cur != prev:
            diff = [k for k in cur if cur[k] != prev[k]]
            return "rejected update %d changed query answers (%s)" % (n, ",".join(diff))
        prev = cur
        ids = [h.top] + list(h)
        par = {x: tuple(h.parents(x)) for x in ids}
        for x in ids:
            for p in par[x]:
                if p not in par:
                    return "parent %r of %r is not a node" % (p, x)
                if x not in h.children(p):
                    return "%r lists parent %r but is not among its children" % (x, p)
            for ch in h.children(x):
                if ch not in par or x not in par[ch]:
                    return "children(%r) has %r which does not list it as parent" % (x, ch)
        # closures computed independently
        anc = {}

        def closure(x, seen):
            out = set()
            for p in par[x]:
                out.add(p)
                if p in seen:
                    raise RuntimeError("cycle")
                out |= closure(p, seen | {p})
            return out
        try:
            for x in ids:
                anc[x] = closure(x, {x})
        except RuntimeError:
            return "cycle through parents"
        for x in ids:
            if set(h.ancestors(x)) != anc[x]:
                return "ancestors(%r) is not the transitive closure of parents" % x
            want = {y for y in ids if x in anc[y]}
            if set(h.descendants(x)) != want:
                return "descendants(%r) is not the inverse of ancestors" % x
            if x != h.top and h.top not in anc[x]:
                return "%r does not descend from the top" % x
            for p in par[x]:
                for q in par[x]:
                    if p in anc[q]:
                        return "%r: parent %r is an ancestor of parent %r" % (x, p, q)
        for a in ids:
            if not h.subsumes(a, a):
                return "subsumes not reflexive at %r" % a
            if not h.subsumes(h.top, a):
                return "top does not subsume %r" % a
            for b in ids:
                sab = h.subsumes(a, b)
                if sab != (a == b or a in anc[b]):
                    return "subsumes(%r,%r) wrong" % (a, b)
                if sab and h.subsumes(b, a) and a != b:
                    return "subsumes not antisymmetric at %r,%r" % (a, b)
                cab = h.compatible(a, b)
                if cab != h.compatible(b, a):
                    return "compatible not symmetric at %r,%r" % (a, b)
                common = ({a} | {y for y in ids if a in anc[y]}) & ({b} | {y for y in ids if b in anc[y]})
                if cab != bool(common):
                    return "compatible(%r,%r) != common descendant-or-self" % (a, b)
        if c["lower"]:
            for x in univ:
                for y in (x.upper(), x.lower()):
                    if norm(x) == norm(y):
                        for q in (h.parents, h.children, h.ancestors, h.descendants):
                            if _q(q, x) != _q(q, y):
                                return "%s differs for spellings %r/%r" % (q.__name__, x, y)
                        # two-place queries: the same answer for every spelling of either argument
                        for z in ids:
                            for q in (h.subsumes, h.compatible):
                                if _q(q, x, z) != _q(q, y, z) or _q(q, z, x) != _q(q, z, y):
                                    return "%s differs for spellings %r/%r (other argument %r)" % (
                                        q.__name__, x, y, z)
    return None


def known_match(case, failure, known):
    return None


# ------------------------------------------------------------------ Coq side

def _parg(ps):
    if isinstance(ps, str):
        return app("PStr", cstr(ps))
    return app("PTuple", clist(ps, cstr))


def _op(o):
    return "(%s, %s)" % (clist(o["sub"], lambda e: "(%s, %s)" % (cstr(e[0]), _parg(e[1]))),
                         clist(o["data"], lambda e: "(%s, %s)" % (cstr(e[0]), cN(e[1]))))


def _ol(x):
    return copt(x, lambda l: clist(l, cstr))


def _item(it):
    if it == "KeyError":
        return "None"
    v = it["d"]
    return "(Some %s)" % copt(v, cN)


def _node(n):
    return ("{| n_contains := %s; n_parents := %s; n_children := %s; n_anc := %s; "
            "n_desc := %s; n_item := %s |}"
            % (cbool(n[0]), _ol(n[1]), _ol(n[2]), _ol(n[3]), _ol(n[4]), _item(n[5])))


def _snap(s):
    if s["st"].startswith("exc"):
        raise ValueError("unexpected exception")
    return ("{| s_rejected := %s; s_iter := %s; s_len := %s; s_nodes := %s; s_pairs := %s |}"
            % (cbool(s["st"] == "rej"), clist(s["iter"], cstr), cnat(s["len"]),
               clist(s["nodes"], _node),
               clist(s["pairs"], lambda p: "(%s, %s)" % (copt(p[0], cbool), copt(p[1], cbool)))))


def coq_case(c, o):
    if "exc" in o:
        raise ValueError("harness")
    return app("CHist", cbool(c["lower"]), cstr(c["top"]), clist(c["univ"], cstr),
               clist(c["ops"], _op), clist(o["snaps"], _snap))
