"""C02 — DMRS codecs: SimpleDMRS (modelled at token level), DMRX, DMRS-JSON, DMRS-PENMAN (oracle)."""
from harness.coqlit import cstr, cZ, copt, clist, app, cbool, cnat
from harness.props import c01

ID = "C02"
COQ_TARGETS = ["Props/C02.vo", "Corr/C02.vo"]
TIE_A = []
CASE_TIMEOUT = 20
SHARD = 60
RULE = ("DMRS graphs with 0-6 nodes (ids from 10000, in or out of order), predicates of the symbol alphabet "
        "(surface and abstract), types in {x,e,i,u,p,None}, 0-4 properties on any node whether typed or not, "
        "constants and surface strings with blanks, quotes, backslashes, brackets and non-ASCII characters, every "
        "Lnk kind, 0-8 links with any role and post in {EQ,NEQ,H,HEQ} incl. MOD/EQ and the undirected /EQ link, "
        "optional top/index/graph lnk/surface/identifier; crossed with properties, lnk, indent and the list API; "
        "hand-written SimpleDMRS texts; token streams with a token deleted, duplicated or replaced. Compared: the "
        "tokens of the encoder's text under the real lexer and the decoded graph or rejection. The oracle runs "
        "round trip and stability on SimpleDMRS, DMRX, DMRS-JSON and, for graphs connected from the top, "
        "DMRS-PENMAN. Non-trivial = at least 2 nodes and a link; distinct = canonical JSON.")
EXHAUSTIVE = {"quick": False, "thorough": False}
EXPLANATION = ("The SimpleDMRS round trip is a theorem over the lexer's token stream for all graphs; the lexer's "
               "regular expressions and white space are oracles. DMRX, DMRS-JSON and DMRS-PENMAN are decided on "
               "the implementation by the oracle.")
ASSUMPTIONS = [
    "predicates, roles, property names/values and identifiers are lexer symbols (no white space, quotes, brackets, "
    "'/', ':', ';', '<', '=', '>'); property names upper case and values lower case",
    "Lnk token lists are non-empty; node ids are positive",
]
TRUSTED = ["_SimpleDMRSLexer regular expressions (exercised through the real lexer on every case)",
           "harness mapping from lexer tokens to the model's token type"]
LEVEL_TEXT = ("Proof (Coq, no axioms) about the token-level model of delphin/codecs/simpledmrs.py: decoding the "
              "encoder's token stream returns identifier, graph lnk/surface, top, index, every node (id, predicate, "
              "alignment, constant, type, properties) and every link exactly, minus properties/alignments when "
              "suppressed, whatever follows the closing brace. The models are tied to the code by kernel-checked "
              "correspondence on the real lexer's tokens; text-level round trips, stability, indentation, lists and "
              "the DMRX, DMRS-JSON and DMRS-PENMAN codecs are checked on the implementation by the oracle. DMRS-JSON and DMRX "
              "are additionally modelled at the level of the JSON value / the XML element tree, with decode-of-encode theorems "
              "(C02_json_from_to_dict, C02_dmrx_from_to_element) and kernel-checked correspondence with to_dict/from_dict and "
              "_encode_dmrs/_decode_dmrs.")
LEVEL_NOTE = ("Partial: lexer regular expressions and white space are oracles; DMRS-PENMAN is oracle-checked, not modelled; "
              "DMRS-JSON is modelled at the level of the JSON value (json.dumps/loads are oracles) and DMRX at the level of the "
              "element tree (ElementTree's serialiser and parser are oracles; predicate.split/create are oracles whose assumed "
              "behaviour - create undoes split - is a hypothesis of the theorem and holds of the tables of every case).")
TECHNIQUE = "Coq proof (token-level decode-of-encode) + kernel-checked correspondence + round-trip oracle on all four codecs"
DESIGN_REF = "DESIGN.md section 6, C02"

PREDS = ["_dog_n_1", "_the_q", "udef_q", "_look_v_up-at", "compound", "_in+order+to_x", "named", "proper_q",
         "_犬_n_1", "poss", "_24x7_a_1", "_vice+versa_a_1", "pron", "_bark_v_1", "_quick_a_1", "neg", "_a_q"]
TYPES = ["x", "e", "i", "u", "p", None]
PROPS = [["PERS", "3"], ["NUM", "sg"], ["GEND", "f"], ["IND", "+"], ["PT", "std"], ["SF", "prop-or-ques"],
         ["TENSE", "past"], ["MOOD", "indicative"], ["PROG", "-"], ["PERF", "+"], ["ZED", "a1"], ["COG-ST", "uniq+fam"]]
ROLES = ["ARG1", "ARG2", "ARG3", "RSTR", "BODY", "L-INDEX", "R-HNDL", "MOD", "ARG"]
POSTS = ["EQ", "NEQ", "H", "HEQ"]
STRS = c01.STRS
IDENTS = [None, None, "10", "abc", "item-7"]


def gen_dmrs(rng, charonly=False, connected=False):
    n = rng.randrange(0, 7) if not connected else rng.randrange(1, 6)
    ids = [10000 + i for i in range(n)]
    if rng.random() < 0.2:
        ids = [10000 + 3 * i + rng.randrange(0, 3) for i in range(n)]
    if rng.random() < 0.2:
        rng.shuffle(ids)
    nodes = []
    for i in ids:
        pred = rng.choice(PREDS)
        props = []
        if rng.random() < 0.5:
            props = rng.sample(PROPS, rng.randrange(1, 5))
        nodes.append({"id": i, "pred": pred, "type": rng.choice(TYPES), "props": props,
                      "carg": rng.choice(STRS) if (pred == "named" or rng.random() < 0.1) else None,
                      "lnk": c01._lnk(rng, charonly), "surface": rng.choice(STRS) if rng.random() < 0.15 else None})
    links = []
    if n >= 1:
        if connected:
            for k in range(1, n):
                a, b = ids[rng.randrange(0, k)], ids[k]
                if rng.random() < 0.5:
                    a, b = b, a
                links.append([a, b, rng.choice(ROLES), rng.choice(POSTS)])
        for _ in range(rng.randrange(0, 5)):
            a, b = rng.choice(ids), rng.choice(ids)
            k = rng.random()
            if k < 0.15:
                links.append([a, b, None, "EQ"])
            elif k < 0.3:
                links.append([a, b, "MOD", "EQ"])
            else:
                links.append([a, b, rng.choice(ROLES), rng.choice(POSTS)])
    top = rng.choice(ids) if ids and rng.random() < 0.8 else None
    if connected and ids:
        top = rng.choice(ids)
    index = rng.choice(ids) if ids and rng.random() < 0.7 else None
    return {"top": top, "index": index, "nodes": nodes, "links": links,
            "lnk": c01._lnk(rng, charonly) if rng.random() < 0.4 else None,
            "surface": rng.choice(STRS) if rng.random() < 0.3 else None,
            "identifier": rng.choice(IDENTS)}


TEXTS = [
    'dmrs { [<0:9> "It rains" top=10000 index=10000] 10000 [_rain_v_1<3:9> e TENSE=pres]; }',
    'dmrs 12 { 10000 [_the_q<0:3>]; 10001 [_dog_n_1<4:7> x PERS=3 NUM=sg]; 10000:RSTR/H -> 10001; '
    '10001:/EQ -- 10000; }',
    'dmrs { 10000 [named<0:3>("Kim") x]; 0:/H -> 10000; }',
    'dmrs { [top=10001] 10000 [udef_q]; 10001 [pron x pers=1 NUM=SG]; 10000:RSTR/H -> 10001; 10000:ARG1/NEQ -> 10001; }',
    'dmrs { }',
    'dmrs { [] }',
    'dmrs { 10000 [p] }',
    'dmrs { 10000 [p]; 10000:ARG1/NEQ 10001; }',
    'dmrs { 10000 [p x y]; }',
    'dmrs x y { }',
    'dmrs { 10000 [p<@3>("a\\"b")]; } dmrs { 10001 [q<1 2>]; }',
    'dmrs { 10000 [p PERS=3]; }',
    'mrs { }',
]


def gen(rng, tier):
    cases = []
    n = 300 if tier == "quick" else 12000
    for i in range(n):
        d = gen_dmrs(rng, charonly=rng.random() < 0.6, connected=i % 3 == 0)
        cases.append({"k": "dmrs", "d": d, "p": rng.random() < 0.7, "l": rng.random() < 0.7,
                      "indent": rng.choice([False, True, 0, 2, None])})
    for i in range(n // 8):
        ds = [gen_dmrs(rng, charonly=True, connected=True) for _ in range(rng.randrange(0, 4))]
        cases.append({"k": "doc", "ds": ds, "p": rng.random() < 0.7, "l": rng.random() < 0.7,
                      "indent": rng.choice([False, True, 2])})
    for t in TEXTS:
        cases.append({"k": "text", "text": t})
    for i in range(n // 3):
        cases.append({"k": "mut", "d": gen_dmrs(rng), "op": rng.choice(["del", "dup", "swap", "rep"]),
                      "pos": rng.random(), "rep": rng.randrange(0, 9)})
    return cases


def nontrivial(c):
    if c["k"] in ("dmrs", "mut"):
        return len(c["d"]["nodes"]) >= 2 and len(c["d"]["links"]) >= 1
    if c["k"] == "doc":
        return len(c["ds"]) >= 2
    return True


# ------------------------------------------------------------------ implementation side

def build(d):
    from delphin import dmrs
    nodes = [dmrs.Node(n["id"], n["pred"], type=n["type"], properties=dict((a, b) for a, b in n["props"]),
                       carg=n["carg"], lnk=c01.mk_lnk(n.get("lnk")), surface=n.get("surface")) for n in d["nodes"]]
    links = [dmrs.Link(*l) for l in d["links"]]
    return dmrs.DMRS(top=d["top"], index=d["index"], nodes=nodes, links=links, lnk=c01.mk_lnk(d.get("lnk")),
                     surface=d.get("surface"), identifier=d.get("identifier"))


def dmrs_obs(x):
    return {"top": x.top, "index": x.index,
            "nodes": [{"id": n.id, "pred": n.predicate, "type": n.type,
                       "props": [[k, v] for k, v in n.properties.items()], "carg": n.carg,
                       "lnk": c01.lnk_obs(n.lnk), "surface": n.surface} for n in x.nodes],
            "links": [[l.start, l.end, l.role, l.post] for l in x.links],
            "lnk": c01.lnk_obs(x.lnk), "surface": x.surface, "identifier": x.identifier}


def _xml_obs(e):
    return {"tag": e.tag, "attrs": [[k, v] for k, v in e.attrib.items()], "text": e.text,
            "kids": [_xml_obs(k) for k in e]}


def _dmrx_obs(x, c):
    """DMRX at the level of the element tree, with the predicate oracles as tables; None when the
    structure is outside the modelled class (predicates not in normal form, non-ASCII properties)"""
    from delphin import predicate
    from delphin.codecs import dmrx
    preds = []
    for n in c["d"]["nodes"]:
        if predicate.normalize(n["pred"]) != n["pred"]:
            return None
        if any(ord(ch) > 127 for kv in n["props"] for ch in kv[0] + kv[1]) or \
                (n["type"] and any(ord(ch) > 127 for ch in n["type"])):
            return None
        if n["pred"] not in preds:
            preds.append(n["pred"])
    splits = []
    for pr in preds:
        if predicate.is_surface(pr):
            lemma, pos, sense = predicate.split(pr)
            splits.append([pr, [lemma, pos, sense]])
        else:
            splits.append([pr, None])
    elem = dmrx._encode_dmrs(x, c["p"], c["l"])
    creates = []
    for e in elem.iter("realpred"):
        key = [e.get("lemma"), e.get("pos"), e.get("sense")]
        if key[0] is None or key[1] is None:
            return None
        if not any(k[:3] == key for k in creates):
            creates.append(key + [predicate.normalize(predicate.create(*key))])
    return {"splits": splits, "creates": creates, "elem": _xml_obs(elem),
            "back": dmrs_obs(dmrx._decode_dmrs(elem))}


def c_xml(o):
    return "(XE %s %s %s %s)" % (cstr(o["tag"]), c01.c_pairs(o["attrs"]), copt(o["text"], cstr),
                                 clist(o["kids"], c_xml))


def lex(text):
    from delphin.codecs import simpledmrs as S
    from delphin.lnk import Lnk
    out = []
    L = S._SimpleDMRSLexer
    for gid, tok, _, _, _ in L.prelex(text.splitlines()):
        name = L.tokentypes(gid).name
        if name == "LNK":
            out.append(["LNK", c01.lnk_obs(Lnk(tok))])
        elif name in ("DQSTRING", "SYMBOL", "ARROW"):
            out.append([name, tok])
        else:
            out.append([name])
    return out


PUNCT = {"LBRACE": "{", "RBRACE": "}", "LBRACKET": "[", "RBRACKET": "]", "LPAREN": "(", "RPAREN": ")",
         "COLON": ":", "SLASH": "/", "EQUALS": "=", "SEMICOLON": ";"}


def decode_tokens(toks):
    from delphin.codecs import simpledmrs as S
    from delphin import util
    from delphin.dmrs import DMRSSyntaxError
    T = S._SimpleDMRSLexer.tokentypes

    def raw(t):
        if t[0] == "LNK":
            l = t[1]
            text = {"char": lambda: "<%d:%d>" % (l[1], l[2]), "chart": lambda: "<%d#%d>" % (l[1], l[2]),
                    "toks": lambda: "<%s>" % " ".join(map(str, l[1:])), "edge": lambda: "<@%d>" % l[1]}[l[0]]()
            return (T.LNK, text, 1, 0, "")
        if len(t) == 1:
            return (T[t[0]], PUNCT[t[0]], 1, 0, "")
        return (T[t[0]], t[1], 1, 0, "")
    lexer = util.LookaheadLexer(iter([raw(t) for t in toks]), DMRSSyntaxError)
    out = []
    try:
        while True:
            try:
                lexer.peek()
            except StopIteration:
                break
            try:
                out.append(S._decode_dmrs(lexer))
            except StopIteration:
                return {"err": "EOF"}
    except (DMRSSyntaxError, ValueError) as e:
        return {"err": type(e).__name__}
    return {"ds": [dmrs_obs(x) for x in out]}


def mutate(toks, c):
    toks = [list(t) for t in toks]
    if not toks:
        return toks
    i = min(int(c["pos"] * len(toks)), len(toks) - 1)
    reps = [["LBRACE"], ["RBRACE"], ["LBRACKET"], ["RBRACKET"], ["SYMBOL", "x"], ["SEMICOLON"],
            ["DQSTRING", "a\\\"b"], ["LNK", ["char", 0, 1]], ["COLON"]]
    if c["op"] == "del":
        del toks[i]
    elif c["op"] == "dup":
        toks.insert(i, toks[i])
    elif c["op"] == "swap" and i + 1 < len(toks):
        toks[i], toks[i + 1] = toks[i + 1], toks[i]
    else:
        toks[i] = reps[c["rep"] % len(reps)]
    return toks


def observe(c):
    from delphin.codecs import simpledmrs as S
    from delphin.dmrs import DMRSSyntaxError
    if c["k"] == "dmrs":
        x = build(c["d"])
        text = S.encode(x, properties=c["p"], lnk=c["l"], indent=c["indent"])
        try:
            toks = lex(text)
        except DMRSSyntaxError:
            return {"lexerr": True}
        o = {"toks": toks, "dec": decode_tokens(toks)}
        if all(n.get("surface") is None for n in c["d"]["nodes"]):
            from delphin.codecs import dmrsjson
            d = dmrsjson.to_dict(x, properties=c["p"], lnk=c["l"])
            o["json"] = {"d": d, "back": dmrs_obs(dmrsjson.from_dict(d))}
            xo = _dmrx_obs(x, c)
            if xo is not None:
                o["xml"] = xo
        return o
    if c["k"] == "doc":
        text = S.dumps([build(d) for d in c["ds"]], properties=c["p"], lnk=c["l"], indent=c["indent"])
        toks = lex(text)
        return {"toks": toks, "dec": decode_tokens(toks)}
    if c["k"] == "text":
        try:
            toks = lex(c["text"])
        except DMRSSyntaxError:
            return {"lexerr": True}
        return {"toks": toks, "dec": decode_tokens(toks)}
    if c["k"] == "mut":
        try:
            toks = mutate(lex(S.encode(build(c["d"]))), c)
        except DMRSSyntaxError:
            return {"lexerr": True}
        return {"toks": toks, "dec": decode_tokens(toks)}
    raise ValueError(c["k"])


# ------------------------------------------------------------------ oracle

def project(o, p, l, fmt):
    import copy
    o = copy.deepcopy(o)
    for n in o["nodes"]:
        if not l:
            n["lnk"] = None
            n["surface"] = None
        if fmt in ("dmrx", "json", "penman"):
            lk = n["lnk"]
            n["lnk"] = lk if (lk and lk[0] == "char" and lk[1:] != [-1, -1]) else None
        if fmt in ("simple", "penman"):
            n["surface"] = None
        if not p:
            n["props"] = []
            if fmt in ("dmrx", "json"):
                n["type"] = None
        n["props"] = sorted(n["props"])
    lk = o["lnk"]
    if not l or fmt == "penman":
        o["lnk"] = None
        o["surface"] = None
    elif fmt in ("dmrx", "json"):
        o["lnk"] = lk if (lk and lk[0] == "char" and lk[1:] != [-1, -1]) else None
    elif lk == ["char", -1, -1]:
        o["lnk"] = None
    if fmt == "penman":
        o["identifier"] = None
        o["index"] = None      # checked separately (known finding F12)
    return o


def expressible(d, fmt):
    if fmt in ("dmrx", "json", "penman"):
        lnks = [n.get("lnk") for n in d["nodes"]] + [d.get("lnk")]
        if any(l is not None and l[0] != "char" for l in lnks):
            return False
    if fmt == "penman":
        if d["top"] is None or not d["nodes"]:
            return False
        # connected from the top (ignoring direction), and every link has a role
        adj = {n["id"]: set() for n in d["nodes"]}
        for a, b, r, p in d["links"]:
            if r is None:
                return False
            adj[a].add(b)
            adj[b].add(a)
        seen, todo = {d["top"]}, [d["top"]]
        while todo:
            for y in adj[todo.pop()]:
                if y not in seen:
                    seen.add(y)
                    todo.append(y)
        if len(seen) != len(adj):
            return False
    return True


def _renumber(o):
    """node ids replaced by their position (PENMAN renumbers from 10000 in order of appearance)"""
    import copy
    o = copy.deepcopy(o)
    pos = {n["id"]: i for i, n in enumerate(o["nodes"])}
    for n in o["nodes"]:
        n["id"] = pos[n["id"]]
    o["links"] = sorted([pos[a], pos[b], r, p] for a, b, r, p in o["links"])
    o["top"] = pos.get(o["top"])
    o["index"] = pos.get(o["index"]) if o["index"] is not None else None
    return o


def _canon_penman(o):
    """PENMAN orders nodes with the top first and by graph traversal: compare as a set of nodes keyed by
    (pred, type, props, carg, lnk) with links between those keys when the keys are unique"""
    o = _renumber(o)
    key = lambda n: repr((n["pred"], n["type"], n["props"], n["carg"], n["lnk"]))
    keys = [key(n) for n in o["nodes"]]
    if len(set(keys)) != len(keys):
        return None
    return {"top": keys[o["top"]], "nodes": sorted(keys),
            "links": sorted([keys[a], keys[b], (r or "").upper(), p] for a, b, r, p in o["links"])}


def _check_codec(name, mod, fmt, x, c):
    p, l, indent = c["p"], c["l"], c["indent"]
    expect = project(dmrs_obs(x), p, l, fmt)
    try:
        text = mod.encode(x, properties=p, lnk=l, indent=indent)
    except Exception as e:
        return "%s: encode raised %s: %s" % (name, type(e).__name__, str(e)[:80])
    try:
        x2 = mod.decode(text)
    except Exception as e:
        return "%s: the codec cannot read its own output (%s: %s)" % (name, type(e).__name__, str(e)[:80])
    got = project(dmrs_obs(x2), True, True, fmt)
    if fmt == "penman":
        a, b = _canon_penman(expect), _canon_penman(got)
        if a is not None and a != b:
            for key in a:
                if a[key] != b[key]:
                    return "%s: decode(encode(d)) differs in %s: %r vs %r" % (name, key, b[key], a[key])
    elif got != expect:
        for key in expect:
            if got[key] != expect[key]:
                return "%s: decode(encode(d)) differs in %s: %r vs %r" % (name, key, got[key], expect[key])
    text2 = mod.encode(x2, properties=p, lnk=l, indent=indent)
    if fmt == "penman":
        # stable up to the renumbering of identifiers: the second round trip gives the same graph
        x3 = mod.decode(text2)
        if _canon_penman(project(dmrs_obs(x3), True, True, fmt)) != _canon_penman(got):
            return "%s: a second round trip changes the graph" % name
    elif text2 != text:
        return "%s: re-encoding the decoded graph does not reproduce the text" % name
    doc = mod.dumps([x, x2], properties=p, lnk=l, indent=indent)
    back = mod.loads(doc)
    if len(back) != 2:
        return "%s: dumps/loads of a two-item document gives %d items" % (name, len(back))
    # single vs list API: an item of a document is what the single-item functions give for it
    for b in back:
        gb = project(dmrs_obs(b), True, True, fmt)
        if fmt == "penman":
            ca, cb = _canon_penman(got), _canon_penman(gb)
            if ca is not None and ca != cb:
                return "%s: an item read from a document differs from decode(encode(item))" % name
        elif gb != got:
            return "%s: an item read from a document differs from decode(encode(item))" % name
    if fmt != "penman" and mod.dumps(back, properties=p, lnk=l, indent=indent) != doc:
        return "%s: dumps(loads(doc)) differs from doc" % name
    return None


def codecs():
    from delphin.codecs import simpledmrs, dmrx, dmrsjson, dmrspenman
    return (("simpledmrs", simpledmrs, "simple"), ("dmrx", dmrx, "dmrx"), ("dmrsjson", dmrsjson, "json"),
            ("dmrspenman", dmrspenman, "penman"))


def oracle(c):
    import logging
    logging.disable(logging.CRITICAL)
    if c["k"] == "dmrs":
        d = c["d"]
        x = build(d)
        rs = []
        for name, mod, fmt in codecs():
            if not expressible(d, fmt):
                continue
            r = _check_codec(name, mod, fmt, x, c)
            if r:
                rs.append(r)
        if rs:
            return " || ".join(rs)
        if expressible(d, "penman") and d["index"] is not None:
            from delphin.codecs import dmrspenman
            if dmrspenman.decode(dmrspenman.encode(x)).index is None:
                return "dmrspenman: the index is lost (the format has no place for it)"
        return None
    if c["k"] == "doc":
        xs = [build(d) for d in c["ds"]]
        for name, mod, fmt in codecs():
            if not all(expressible(d, fmt) for d in c["ds"]):
                continue
            doc = mod.dumps(xs, properties=c["p"], lnk=c["l"], indent=c["indent"])
            back = mod.loads(doc)
            if len(back) != len(xs):
                return "%s: a document of %d items reads back as %d" % (name, len(xs), len(back))
            for x, b in zip(xs, back):
                one = project(dmrs_obs(mod.decode(mod.encode(x, properties=c["p"], lnk=c["l"], indent=c["indent"]))),
                              True, True, fmt)
                gb = project(dmrs_obs(b), True, True, fmt)
                if fmt == "penman":
                    ca, cb = _canon_penman(one), _canon_penman(gb)
                    if ca is not None and ca != cb:
                        return "%s: an item read from a document differs from decode(encode(item))" % name
                elif gb != one:
                    return "%s: an item read from a document differs from decode(encode(item))" % name
            if fmt != "penman" and mod.dumps(back, properties=c["p"], lnk=c["l"], indent=c["indent"]) != doc:
                return "%s: dumps(loads(doc)) differs from doc" % name
        return None
    return None


def known_match(case, failure, known):
    if isinstance(failure, str) and failure.startswith("dmrspenman: the index is lost"):
        for e in known:
            if e["id"] == "F12":
                return "F12"
    return None


# ------------------------------------------------------------------ Coq side

def c_node(n, lnkopt=True):
    return ("{| n_id := %s; n_pred := %s; n_type := %s; n_props := %s; n_carg := %s; n_lnk := %s |}"
            % (cZ(n["id"]), cstr(n["pred"]), copt(n["type"], cstr), c01.c_pairs(n["props"]),
               copt(n["carg"], cstr), c01.c_lnk(n.get("lnk"))))


def c_link(l):
    return "(%s, %s, %s, %s)" % (cZ(l[0]), cZ(l[1]), copt(l[2], cstr), cstr(l[3]))


def c_dmrs(d):
    return ("{| g_top := %s; g_index := %s; g_nodes := %s; g_links := %s; g_lnk := %s; g_surface := %s; "
            "g_ident := %s |}" % (copt(d["top"], cZ), copt(d["index"], cZ), clist(d["nodes"], c_node),
                                  clist(d["links"], c_link), c01.c_lnk(d.get("lnk")), copt(d.get("surface"), cstr),
                                  copt(d.get("identifier"), cstr)))


TOKC = {"LBRACE": "DLBRACE", "RBRACE": "DRBRACE", "LBRACKET": "DLBRK", "RBRACKET": "DRBRK", "LPAREN": "DLPAR",
        "RPAREN": "DRPAR", "COLON": "DCOLON", "SLASH": "DSLASH", "EQUALS": "DEQ", "SEMICOLON": "DSEMI"}
TOKS = {"DQSTRING": "DDQ", "ARROW": "DARROW", "SYMBOL": "DSYM"}


def c_tok(t):
    if t[0] in TOKC:
        return TOKC[t[0]]
    if t[0] == "LNK":
        return "(DLNK %s)" % c01.c_lnk(t[1])
    return "(%s %s)" % (TOKS[t[0]], cstr(t[1]))


def coq_case(c, o):
    if "exc" in o:
        raise ValueError("harness")
    if "lexerr" in o:
        return None
    toks = clist(o["toks"], c_tok)
    dec = app("DDec", toks, "None" if "err" in o["dec"] else "(Some %s)" % clist(o["dec"]["ds"], c_dmrs))
    if c["k"] == "dmrs":
        out = [app("DEnc", cbool(c["p"]), cbool(c["l"]), c_dmrs(c["d"]), toks), dec]
        if "json" in o:
            out.append(app("DJson", cbool(c["p"]), cbool(c["l"]), c_dmrs(c["d"]), c01.c_jv(o["json"]["d"]),
                           c_dmrs(o["json"]["back"])))
        if "xml" in o:
            xo = o["xml"]
            out.append(app("DXml", cbool(c["p"]), cbool(c["l"]), c_dmrs(c["d"]),
                           clist(xo["splits"], lambda e: "(%s, %s)" % (cstr(e[0]), copt(
                               e[1], lambda t: "(%s, %s, %s)" % (cstr(t[0]), cstr(t[1]), copt(t[2], cstr))))),
                           clist(xo["creates"], lambda e: "(%s, %s, %s, %s)" % (
                               cstr(e[0]), cstr(e[1]), copt(e[2], cstr), cstr(e[3]))),
                           c_xml(xo["elem"]), c_dmrs(xo["back"])))
        return out
    return dec
