"""C05 — MRS -> EDS conversion (delphin.eds.from_mrs)."""
from harness.coqlit import cstr, cZ, copt, clist, app, cbool, cnat
from harness.props import mrs_common as mc

ID = "C05"
COQ_TARGETS = ["Props/C05.vo", "Corr/C05.vo"]
TIE_A = []
CASE_TIMEOUT = 20
SHARD = 25
RULE = ("the C04 MRS space (generated well-formed MRSs with every argument kind, shared labels, shuffled order and "
        "numbering) crossed with predicate_modifiers on/off and unique_ids on/off, plus mildly ill-formed MRSs for "
        "the conversion model. Compared: top, every node (id, predicate, type, edges in order, properties, "
        "constant), the number of warnings, or IndexError. The oracle checks the dependency-soundness clauses and "
        "the native EDS serialisation round trip. Non-trivial = at least 3 predications; distinct = canonical JSON.")
EXHAUSTIVE = {"quick": False, "thorough": False}
EXPLANATION = ("Theorems: one node per predication in order with its attributes; node identifiers are unique "
               "whenever the conversion with unique_ids succeeds; every edge is justified by the source (an "
               "argument of that role selecting the target through a handle constraint, a label or an "
               "intrinsic variable; the single BV edge of a quantifier to the predication with the same "
               "variable; an ARG1 predicate-modifier edge to the first representative of the same scope from "
               "which the node was not reachable). Top/edges ending at nodes, absence of warnings on "
               "well-formed input and the C03 round trip are decided by the oracle.")
ASSUMPTIONS = [
    "make_ids_unique sorts a Python set when two predications would get the same new id; the model covers the "
    "case where new ids do not clash (always true under the intrinsic-variable property) and skips the others",
    "a user-supplied predicate_modifiers function is not modelled (True/False only)",
]
TRUSTED = []
LEVEL_TEXT = ("Proof (Coq, no axioms) about the model of eds.from_mrs: one node per predication, in order, with "
              "predicate, constant, type and properties of the intrinsic variable; unique node identifiers whenever "
              "the conversion with unique_ids returns; every edge of every node justified by the source "
              "(C05_edges_justified, C05_bv_edge). The full conversion (top selection incl. fallbacks, basic "
              "dependencies, bound-variable edges, predicate-modifier edges via connected components, id renaming, "
              "warnings, IndexError) is tied to the code by kernel-checked correspondence for all four flag "
              "combinations; the C03 round trip and the absence of warnings are checked by the oracle.")
LEVEL_NOTE = ("Partial: 'no warning on well-formed input' and 'every edge ends at a node' are oracle-checked, not proved. "
              "F8 (representative-less scope) is a known finding.")
TECHNIQUE = "Coq proof (nodes, unique ids, edge justification) + kernel-checked correspondence + dependency-soundness oracle"
DESIGN_REF = "DESIGN.md section 6, C05"


def gen(rng, tier):
    cases = []
    n = 300 if tier == "quick" else 3500
    for i in range(n):
        if i % 5 == 4:
            m = mc.gen_any_mrs(rng)
            wf = False
        else:
            m = mc.gen_wf_mrs(rng, max_nouns=3, shuffle_vars=rng.random() < 0.5, shuffle_rels=rng.random() < 0.5)
            wf = True
        cases.append({"k": "eds", "m": m, "wf": wf, "pm": rng.random() < 0.6, "uniq": rng.random() < 0.6})
    # F8, second trigger (no representative because each member reaches below the other's scopal argument)
    from harness.props import c07
    for pm in (True, False):
        cases.append({"k": "eds", "m": c07.F8_FAMILY, "wf": True, "pm": pm, "uniq": False})
    return cases


def nontrivial(c):
    return len(c["m"]["rels"]) >= 3


def _obs(e, nw):
    return {"top": e.top,
            "nodes": [[n.id, n.predicate, n.type, [[r, t] for r, t in n.edges.items()],
                       [[k, v] for k, v in n.properties.items()], n.carg] for n in e.nodes],
            "warnings": nw}


def observe(c):
    import warnings
    from delphin import eds
    try:
        m = mc.build_mrs(c["m"])
    except ValueError:
        return {"build": "ValueError"}
    with warnings.catch_warnings(record=True) as w:
        warnings.simplefilter("always")
        try:
            e = eds.from_mrs(m, predicate_modifiers=c.get("pm", True), unique_ids=c.get("uniq", True))
        except IndexError:
            return {"err": "IndexError"}
        except (KeyError, ValueError, AttributeError) as ex:
            return {"err": type(ex).__name__}
        nw = len([x for x in w if issubclass(x.category, eds.EDSWarning)])
    return {"e": _obs(e, nw)}


def oracle(c):
    import warnings
    from delphin import eds, mrs
    from delphin.codecs import eds as edsnative
    if not c.get("wf", True):
        return None
    m = mc.build_mrs(c["m"])
    if not mrs.is_well_formed(m):
        return None
    with warnings.catch_warnings(record=True) as w:
        warnings.simplefilter("always")
        e = eds.from_mrs(m, predicate_modifiers=c.get("pm", True), unique_ids=c.get("uniq", True))
        e0 = eds.from_mrs(m, predicate_modifiers=False, unique_ids=False)
        if [x for x in w if issubclass(x.category, eds.EDSWarning)]:
            return "conversion of a well-formed MRS issued a warning: %s" % w[0].message
    if len(e.nodes) != len(m.rels):
        return "node count differs from predication count"
    ids = [n.id for n in e.nodes]
    if len(set(ids)) != len(ids):
        return "node identifiers are not unique"
    if e.top is None or e.top not in ids:
        return "the top is not a node"
    for n, ep in zip(e.nodes, m.rels):
        if n.predicate != ep.predicate or n.carg != ep.carg:
            return "node does not carry predicate/constant of its predication"
        if not ep.is_quantifier():
            if n.type != ep.iv.rstrip("0123456789") or n.properties != m.variables[ep.iv]:
                return "node does not carry type/properties of the intrinsic variable"
        for role, tgt in n.edges.items():
            if tgt not in ids:
                return "edge %s ends at %r which is not a node" % (role, tgt)
    # edge justification on the un-renamed conversion
    byid = {n.id: (n, ep) for n, ep in zip(e0.nodes, m.rels)}
    hc = {h.hi: h.lo for h in m.hcons}
    epm = eds.from_mrs(m, predicate_modifiers=True, unique_ids=False)
    # connected components of the basic dependencies
    comp = {n.id: n.id for n in e0.nodes}

    def find(x):
        while comp[x] != x:
            x = comp[x]
        return x
    for n in e0.nodes:
        for tgt in n.edges.values():
            comp[find(n.id)] = find(tgt)
    pm_seen = set()
    for n, ep in zip(epm.nodes, m.rels):
        base = byid[n.id][0].edges
        for role, tgt in n.edges.items():
            tep = byid[tgt][1]
            if role == "BV" and ep.is_quantifier():
                if tep.iv != ep.iv or tep.is_quantifier():
                    return "BV edge does not end at the quantified predication"
                continue
            if role in base and base[role] == tgt:
                v = ep.args.get(role)
                if v is None:
                    return "edge %s has no corresponding argument" % role
                if not (v == tep.iv or tep.label == hc.get(v, v)):
                    return "edge %s is not justified by the argument %s" % (role, v)
            else:
                if role != "ARG1" or tep.label != ep.label:
                    return "extra edge %s is not a predicate-modifier edge within one scope" % role
                if find(n.id) == find(tgt):
                    return "predicate-modifier edge %s -> %s joins predications that were already connected" % (n.id, tgt)
                if (find(n.id), tgt) in pm_seen:
                    return ("predicate-modifier edge %s -> %s: its component was already joined to that "
                            "predication by another predicate-modifier edge" % (n.id, tgt))
                pm_seen.add((find(n.id), tgt))
        if ep.is_quantifier() and list(n.edges).count("BV") != 1:
            return "quantifier without exactly one BV edge"
    # survives native serialisation
    text = edsnative.encode(e)
    back = edsnative.decode(text)
    if back.top != e.top or [(n.id, n.predicate, n.carg, dict(n.edges)) for n in back.nodes] != \
            [(n.id, n.predicate, n.carg, dict(n.edges)) for n in e.nodes]:
        return "the converted EDS does not survive native serialisation"
    return None


def known_match(case, failure, known):
    if isinstance(failure, str) and "IndexError" in failure:
        from harness.props import c07
        if c07._mutual_cycle(case["m"]) or c07._all_members_blocked(case["m"]):
            for e in known:
                if e["id"] == "F8":
                    return "F8"
    return None


def _pairs(ps):
    return clist(ps, lambda p: "(%s, %s)" % (cstr(p[0]), cstr(p[1])))


def coq_case(c, o):
    if "exc" in o:
        raise ValueError("harness")
    if "build" in o:
        return None
    if "err" in o:
        if o["err"] != "IndexError":
            return None
        return app("CEdsFromMrs", mc.coq_mrs(c["m"]), cbool(c.get("pm", True)), cbool(c.get("uniq", True)), "None")
    e = o["e"]
    em = ("{| e_top := %s; e_nodes := %s; e_warnings := %s |}"
          % (copt(e["top"], cstr),
             clist(e["nodes"], lambda n: "{| en_id := %s; en_pred := %s; en_type := %s; en_edges := %s; "
                   "en_props := %s; en_carg := %s |}" % (cstr(n[0]), cstr(n[1]), copt(n[2], cstr), _pairs(n[3]),
                                                         _pairs(n[4]), copt(n[5], cstr))),
             cnat(e["warnings"])))
    return app("CEdsFromMrs", mc.coq_mrs(c["m"]), cbool(c.get("pm", True)), cbool(c.get("uniq", True)), "(Some %s)" % em)
