"""C12 — commands.mkprof: profiles contain exactly the selected source rows."""
import re

from harness.coqlit import cstr, cZ, copt, clist, app, cbool, cN
from harness.props import c09, c11

ID = "C12"
COQ_TARGETS = ["Props/C12.vo", "Corr/C12.vo"]
TIE_A = []
CASE_TIMEOUT = 30
RULE = ("source profiles over an item/parse/result/run + analysis/set schema with arbitrary contents (values with "
        "'@', backslashes, empty fields, duplicate rows), plain or gzipped; mkprof to a new or pre-populated "
        "destination with every combination of full / skeleton / gzip, an alternative target schema (columns "
        "added, dropped, reordered; relations added/dropped), where-filters from the C11 grammar over "
        "item/parse/result columns (incl. ill-typed and undefined-column filters); refresh in place with "
        "schema/compression changes; sentence-line inputs with and without '*', empty lines, extra blanks. "
        "Compared: success/failure, and for every relation its physical form and records. Non-trivial = a "
        "filter, a schema change or skeleton/full; distinct = canonical JSON.")
EXHAUSTIVE = {"quick": False, "thorough": False}
EXPLANATION = ("Theorems: one item per sentence line with ids from 1, mark and length; cleanup keeps exactly the "
               "(non-empty core | all) relations; refresh = C09's write_database theorem; _tsql_distinct never "
               "invents rows, is the identity exactly on selections without equal neighbours, and is refuted as an "
               "identity in general (F15). The copy/filter pipeline is modelled on top of "
               "the C09 and C11 models and tied by correspondence on real directories.")
ASSUMPTIONS = list(c09.ASSUMPTIONS) + list(c11.ASSUMPTIONS) + [
    "delimited text input: one-character delimiters; the model follows _make_split/_lines_to_records (tsdb.split for "
    "the delimiter @, str.split otherwise; the last of two equally named columns wins); an empty input with a "
    "delimiter makes the implementation raise StopIteration (no header line), which the model records as an error",
]
TRUSTED = []
LEVEL_TEXT = ("Proof (Coq, no axioms): a profile made from sentence lines has one record per line, identifiers "
              "1..n, well-formedness mark 0 exactly for '*'-lines (mark stripped), length = number of words; from delimited "
              "lines with a header: one item per data line built from that line and its position, given columns verbatim, a "
              "missing identifier the line number, a missing length the number of words, given identifiers pairwise different; cleanup "
              "leaves exactly the non-empty core relations (skeleton) or all relations of the target schema and "
              "removes stale ones; refreshing in place satisfies the C09 database theorem; the duplicate filter never "
              "invents rows. mkprof_from_database (copy, TSQL filter with fallback, re-make under another schema, "
              "compression) is modelled over the C09/C11 models and compared with commands.mkprof on real "
              "directories by kernel-checked correspondence and an independent relational oracle.")
LEVEL_NOTE = ("Partial: 'exactly the rows satisfying the filter' is decided by correspondence + oracle; F15 "
              "(_tsql_distinct also drops genuine adjacent duplicates of the source relation) is a known finding. "
              "One defect (F24: columns matched by position under another schema) repaired by a fix: commit.")
TECHNIQUE = "Coq proof (lines, cleanup, refresh via C09) + kernel-checked correspondence on real directories"
DESIGN_REF = "DESIGN.md section 6, C12"

SCHEMA = c11.SCHEMA + [["analysis", [["a-id", ":integer", True], ["a-name", ":string", False]]]]


def _variant(rng):
    new = []
    for name, fs in SCHEMA:
        if rng.random() < 0.12 and name != "item":
            continue
        fs = [list(f) for f in fs]
        r = rng.random()
        if r < 0.25:
            fs.append(["x-extra", rng.choice([":string", ":integer"]), False])
        elif r < 0.4 and len(fs) > 2:
            fs.pop(rng.randrange(1, len(fs)))
        elif r < 0.55:
            rng.shuffle(fs)
        new.append([name, fs])
    if rng.random() < 0.2:
        new.append(["set", [["s-id", ":integer", True]]])
    return new


def _gen_src(rng):
    db = c11._gen_db(rng)
    rows = dict((r["name"], r["rows"]) for r in db)
    rows["analysis"] = [[str(i), rng.choice(["n", None])] for i in range(rng.randrange(0, 3))]
    for it in rows["item"]:
        if rng.random() < 0.2:
            it[1] = rng.choice(["a@b", "back\\slash", "two\nlines"])
    if rows["item"] and rng.random() < 0.25:
        i = rng.randrange(len(rows["item"]))
        rows["item"].insert(i, list(rows["item"][i]))      # genuine adjacent duplicate
    # non-key integer fields written in a spelling other than the canonical one: a copy must keep
    # the stored text (choices from a generator of their own)
    import random
    lrng = random.Random(repr(sorted((k, v) for k, v in rows.items())))
    if lrng.random() < 0.3:
        for name, col in (("item", 3), ("item", 2), ("parse", 3)):
            for r_ in rows.get(name, []):
                if col < len(r_) and r_[col] not in (None, "") and lrng.random() < 0.5:
                    try:
                        z = int(r_[col])
                    except ValueError:
                        continue
                    r_[col] = lrng.choice(["%03d" % z if z >= 0 else str(z), "+%d" % z if z >= 0 else str(z)])
    src = []
    for name, fs in SCHEMA:
        r = rng.random()
        if r < 0.1:
            continue                                        # file missing
        src.append([name, rows[name], r < 0.3])             # gz?
    return src


def gen(rng, tier):
    cases = []
    n = 220 if tier == "quick" else 2500
    itemcols = ["i-id", "i-input", "i-wf", "i-length", "readings", "parse-id", "result-id", "mrs", "run-id"]
    for _ in range(n):
        src = _gen_src(rng)
        where = None
        r = rng.random()
        if r < 0.45:
            where = c11._gen_cond(rng, itemcols, 2)
        elif r < 0.5:
            where = ["cmp", "==", "no-such-col", 1]
        if where is not None:
            # a filter that joins a relation whose file is missing raises TSDBError from the
            # file layer (outside the TSQL model): keep all files present for filtered cases
            have = set(n for n, _, _ in src)
            for name, fs in SCHEMA:
                if name not in have:
                    src.append([name, [], False])
        cases.append({"k": "mkprof", "src": src, "new": _variant(rng) if rng.random() < 0.35 else None,
                      "where": where, "full": rng.random() < 0.5, "skeleton": rng.random() < 0.3,
                      "gzip": rng.random() < 0.3, "predst": rng.random() < 0.2})
    for _ in range(n // 3):
        cases.append({"k": "refresh", "src": _gen_src(rng), "new": _variant(rng) if rng.random() < 0.5 else None,
                      "skeleton": rng.random() < 0.2, "gzip": rng.random() < 0.5})
    sents = ["It rained.", "*Rained it.", "", "  two  words ", "*", "*  ", "a@b c", "tab\there", "one"]
    for _ in range(n // 3):
        lines = [rng.choice(sents) for _ in range(rng.randrange(0, 6))]
        fields = [["i-id", ":integer"], ["i-input", ":string"], ["i-wf", ":integer"], ["i-length", ":integer"],
                  ["i-comment", ":string"]]
        if rng.random() < 0.3:
            fields = rng.sample(fields, rng.randrange(2, 5))
            if ["i-input", ":string"] not in fields:
                fields.append(["i-input", ":string"])
        # without a final newline an empty last line is not a line of the file at all
        nl = rng.random() < 0.8 or bool(lines and lines[-1] == "")
        cases.append({"k": "lines", "fields": fields, "lines": lines, "nl": nl})
    # delimited text: a header line names the columns (choices from a generator of their own)
    import random
    lrng = random.Random("c12-delim-" + tier)
    allf = [["i-id", ":integer"], ["i-input", ":string"], ["i-wf", ":integer"], ["i-length", ":integer"],
            ["i-comment", ":string"]]
    vals = {"i-id": ["10", "20", "30", "7", "", "10"], "i-input": ["It rained.", "a b  c", "", "x\\sy", "one", "q\\"],
            "i-wf": ["1", "0", ""], "i-length": ["3", "", "12"], "i-comment": ["c", "", "a b", "bogus"],
            "bogus": ["zz", ""]}
    for _ in range(n // 2):
        delim = lrng.choice(["\t", "@", ",", ";", "@"])
        fields = list(allf) if lrng.random() < 0.7 else lrng.sample(allf, lrng.randrange(1, 5))
        cols = lrng.sample(["i-id", "i-input", "i-wf", "i-length", "i-comment", "bogus"], lrng.randrange(1, 5))
        if lrng.random() < 0.1:
            cols.append(lrng.choice(cols))            # a column named twice: the last one wins
        lines = []
        for _ in range(lrng.randrange(0, 5)):
            row = [lrng.choice(vals[c]) for c in cols]
            if lrng.random() < 0.08:
                row = row[:-1] if lrng.random() < 0.5 else row + ["extra"]
            lines.append(delim.join(row))
        text = [delim.join(cols)] + lines
        if lrng.random() < 0.04:
            text = []
        cases.append({"k": "dlines", "delim": delim, "fields": fields, "lines": text})
    return cases


def nontrivial(c):
    if c["k"] == "mkprof":
        return c["where"] is not None or c["new"] is not None or c["skeleton"] or c["full"]
    return True


# ------------------------------------------------------------------ implementation side

def _write_dir(d, schema, tables):
    import gzip
    import os
    from delphin import tsdb
    sch = {}
    for name, fs in schema:
        sch[name] = [tsdb.Field(n, dt, [":key"] if key else []) for n, dt, key in fs]
    tsdb.write_schema(d, sch)
    for name, rows, gz in tables:
        text = "".join(tsdb.join(row) + "\n" for row in rows)
        if gz and rows:
            with gzip.open(os.path.join(d, name + ".gz"), "wt", encoding="utf-8", newline="\n") as f:
                f.write(text)
        else:
            with open(os.path.join(d, name), "w", encoding="utf-8", newline="\n") as f:
                f.write(text)


def _names(c):
    names = [n for n, _ in SCHEMA]
    for n, _ in (c.get("new") or []):
        if n not in names:
            names.append(n)
    return names + ["stale"]


def observe(c):
    import os
    import shutil
    import tempfile
    from delphin import commands, tsdb, tsql
    top = tempfile.mkdtemp(prefix="verif_c12_")
    try:
        if c["k"] == "dlines":
            sch = os.path.join(top, "relations")
            with open(sch, "w") as f:
                f.write("item:\n" + "\n".join("  %s %s" % (n, dt) for n, dt in c["fields"]) + "\n")
            srcf = os.path.join(top, "cols.txt")
            with open(srcf, "w", encoding="utf-8", newline="\n") as f:
                f.write("".join(l + "\n" for l in c["lines"]))
            dst = os.path.join(top, "dst")
            try:
                commands.mkprof(dst, source=srcf, schema=sch, delimiter=c["delim"], quiet=True)
            except Exception as e:
                return {"err": type(e).__name__}
            with open(os.path.join(dst, "item"), encoding="utf-8", newline="\n") as f:
                return {"lines": f.read().split("\n")[:-1]}
        if c["k"] == "lines":
            sch = os.path.join(top, "relations")
            with open(sch, "w") as f:
                f.write("item:\n" + "\n".join("  %s %s" % (n, dt) for n, dt in c["fields"]) + "\n")
            srcf = os.path.join(top, "sents.txt")
            with open(srcf, "w", encoding="utf-8") as f:
                f.write("\n".join(c["lines"]) + ("\n" if c["nl"] and c["lines"] else ""))
            dst = os.path.join(top, "dst")
            try:
                commands.mkprof(dst, source=srcf, schema=sch, quiet=True)
            except Exception as e:
                return {"err": type(e).__name__}
            with open(os.path.join(dst, "item"), encoding="utf-8", newline="\n") as f:
                return {"lines": f.read().split("\n")[:-1]}
        src = os.path.join(top, "src")
        os.mkdir(src)
        _write_dir(src, SCHEMA, c["src"])
        schpath = None
        if c["new"] is not None:
            schpath = os.path.join(top, "newrel")
            tmpd = os.path.join(top, "tmpd")
            os.mkdir(tmpd)
            _write_dir(tmpd, c["new"], [])
            shutil.copy(os.path.join(tmpd, "relations"), schpath)
        try:
            if c["k"] == "refresh":
                dst = src
                commands.mkprof(dst, schema=schpath, refresh=True, skeleton=c["skeleton"], gzip=c["gzip"],
                                quiet=True)
            else:
                dst = os.path.join(top, "dst")
                if c["predst"]:
                    os.mkdir(dst)
                    with open(os.path.join(dst, "stale"), "w") as f:
                        f.write("1@old\n")
                    with open(os.path.join(dst, "parse"), "w") as f:
                        f.write("9@9@9@9\n")
                where = None if c["where"] is None else c11._cond_text(c["where"])
                commands.mkprof(dst, source=src, schema=schpath, where=where, full=c["full"],
                                skeleton=c["skeleton"], gzip=c["gzip"], quiet=True)
            ok = True
        except (tsdb.TSDBError, tsql.TSQLSyntaxError, KeyError, commands.CommandError, ValueError) as e:
            ok = False
            dst = dst if c["k"] == "refresh" else os.path.join(top, "dst")
        obs = []
        for n in _names(c):
            obs.append([n, c09._obsrel(dst, n) if os.path.isdir(dst) else {"tx": False, "gz": False, "recs": None}])
        return {"ok": ok, "obs": obs}
    finally:
        shutil.rmtree(top, ignore_errors=True)


def _dlines_oracle(c, o):
    """well-formed delimited input (a header of distinct columns, every line with that many values,
    distinct given identifiers, well-formed escapes): one item per data line, given columns verbatim,
    a missing identifier the line number, a missing length the number of words"""
    from delphin import tsdb
    if not c["lines"]:
        return None
    d = c["delim"]

    def split(line):
        if d == "@":
            return list(tsdb.split(line))
        return line.split(d)
    try:
        cols = split(c["lines"][0])
        rows = [split(l) for l in c["lines"][1:]]
    except tsdb.TSDBError:
        return None
    names = [n for n, _ in c["fields"]]
    ok = len(set(cols)) == len(cols) and all(len(r) == len(cols) for r in rows)
    if ok and "i-id" in cols and "i-id" in names:
        ids = [r[cols.index("i-id")] for r in rows]
        ok = len(set(ids)) == len(ids)
    if not ok:
        return None
    if "err" in o:
        return "mkprof from well-formed delimited lines raised %s" % o["err"]
    if len(o["lines"]) != len(rows):
        return "%d items for %d delimited lines" % (len(o["lines"]), len(rows))
    for i, (r, rec) in enumerate(zip(rows, o["lines"]), 1):
        got = dict(zip(names, tsdb.split(rec)))
        given = dict(zip(cols, r))
        for n in names:
            if n in given:
                want = given[n] if given[n] != "" else (None if d != "@" else None)
                if d == "@" and given[n] is None:
                    continue                      # an empty column reads as None: the default is written
                if got[n] != (want if want != "" else None):
                    return "line %d: column %s is %r, the text gives %r" % (i, n, got[n], given[n])
            elif n == "i-id" and got[n] != str(i):
                return "line %d: i-id is %r, expected the line number %d" % (i, got[n], i)
            elif n == "i-length" and "i-input" in given and got[n] != str(len((given["i-input"] or "").split())):
                return "line %d: i-length is %r for the input %r" % (i, got[n], given["i-input"])
    return None


def oracle(c):
    """direct statement of the property on the implementation"""
    o = observe(c)
    if c["k"] == "dlines":
        return _dlines_oracle(c, o)
    if c["k"] == "lines":
        if "err" in o:
            return "mkprof from sentence lines raised %s" % o["err"]
        from delphin import tsdb
        names = [n for n, _ in c["fields"]]
        lines = c["lines"]
        if len(o["lines"]) != len(lines):
            return "%d items for %d lines" % (len(o["lines"]), len(lines))
        for i, (l, rec) in enumerate(zip(lines, o["lines"]), 1):
            vals = dict(zip(names, tsdb.split(rec)))
            wf, inp = ("0", l[1:]) if l.startswith("*") else ("1", l)
            want = {"i-id": str(i), "i-wf": wf, "i-input": inp or None, "i-length": str(len(inp.split()))}
            for k, v in want.items():
                if k in vals and vals[k] != v:
                    return "line %d: %s is %r, expected %r" % (i, k, vals[k], v)
        return None
    if not o.get("ok"):
        return None
    obs = dict((n, x) for n, x in o["obs"])
    src = dict((n, rows) for n, rows, gz in c["src"])
    sch = c["new"] if c["new"] is not None else SCHEMA
    schd = dict((n, fs) for n, fs in sch)
    srcd = dict((n, fs) for n, fs in SCHEMA)
    core = ["item", "analysis", "phenomenon", "parameter", "set", "item-phenomenon", "item-set"]
    from delphin import tsdb
    for n, fs in sch:
        ob = obs[n]
        copied = (c["k"] == "refresh") or c["full"] or n in core
        skel = c["skeleton"]
        if skel and n not in core:
            if ob["tx"] or ob["gz"]:
                return "skeleton contains the non-core relation %s" % n
            continue
        rows = src.get(n) if (copied and n in srcd) else None
        if c["k"] == "refresh" and n not in src:
            rows = None
        if c["k"] == "mkprof" and c["where"] is not None:
            # exactly the source rows that satisfy the filter through the key links, once each, in order
            if not copied or n not in src or "no-such-col" in repr(c["where"]) \
                    or c11._has_mismatch(c["where"]):
                continue
            kept = []
            unknown = False
            for row in src[n]:
                db1 = [{"name": nn, "fields": ff, "rows": ([row] if nn == n else src.get(nn, []))}
                       for nn, ff in SCHEMA]
                r1 = c11._oracle_rows({"db": db1, "q": {"proj": ["*"], "from": [n], "conds": [c["where"]]}})
                if r1 is None:
                    unknown = True
                    break
                if r1:
                    kept.append(row)
            if unknown:
                continue
            want = []
            for row in kept:
                if c["new"] is not None:
                    # under another schema the columns are matched by name
                    colmap = dict(zip([f[0] for f in srcd[n]], row))
                    row = [colmap.get(f[0]) for f in fs]
                out = []
                for v, f in zip(row, fs):
                    if v is None or v == "":
                        d = tsdb.Field(f[0], f[1]).default
                        out.append(d if d != "" else None)
                    else:
                        out.append(v)
                want.append(out)
            if skel and not want:
                continue
            if ob["recs"] != want:
                return "filtered relation %s holds %r, the source rows satisfying the filter are %r" % (
                    n, ob["recs"], want)
            continue
        want = []
        for row in (rows or []):
            colmap = dict(zip([f[0] for f in srcd[n]], row))
            rec = [colmap.get(f[0]) for f in fs] if (c["new"] is not None) else list(row)
            out = []
            for v, f in zip(rec, fs):
                if v is None or v == "":
                    d = tsdb.Field(f[0], f[1]).default
                    out.append(d if d != "" else None)
                else:
                    out.append(v)
            want.append(out)
        if skel and not want:
            if ob["tx"] or ob["gz"]:
                return "skeleton keeps the empty relation %s" % n
            continue
        if ob["recs"] != want:
            return "relation %s holds %r, expected %r" % (n, ob["recs"], want)
        if ob["tx"] == ob["gz"]:
            return "relation %s: plain=%s compressed=%s" % (n, ob["tx"], ob["gz"])
    for n in obs:
        if n not in schd and (obs[n]["tx"] or obs[n]["gz"]) and n in srcd:
            return "stale relation %s left behind" % n
    return None


def _adjacent_dups(case):
    for n, rows, gz in case.get("src", []):
        for a, b in zip(rows, rows[1:]):
            if [x or None for x in a] == [x or None for x in b]:
                return True
    return False


def _explained_by_adjacent_dedup(failure):
    """F15's signature: the copy holds exactly the filtered source rows with every row that equals its
    predecessor (among the rows that pass the filter) removed"""
    import ast, re
    m = re.match(r"filtered relation \S+ holds (\[.*\]), the source rows satisfying the filter are (\[.*\])$",
                 failure, re.S)
    if not m:
        return False
    try:
        got, want = ast.literal_eval(m.group(1)), ast.literal_eval(m.group(2))
    except (ValueError, SyntaxError):
        return False
    dedup = [r for i, r in enumerate(want) if i == 0 or r != want[i - 1]]
    return got == dedup and got != want


def known_match(case, failure, known):
    if case.get("k") == "mkprof" and isinstance(failure, str) and failure.startswith("filtered relation") \
            and case.get("where") is not None \
            and (_adjacent_dups(case) or _explained_by_adjacent_dedup(failure)):
        for e in known:
            if e["id"] == "F15":
                return "F15"
    return None


# ------------------------------------------------------------------ Coq side
DT = c11.DT


def _ksch(s):
    return clist(s, lambda e: "(%s, %s)" % (cstr(e[0]), clist(
        e[1], lambda f: "{| tf_name := %s; tf_type := %s; tf_key := %s |}" % (cstr(f[0]), DT[f[1]], cbool(f[2])))))


def _files(tables):
    from_rows = []
    for name, rows, gz in tables:
        lines = [_join(row) for row in rows]
        if gz and rows:
            st = {"tx": None, "gz": lines, "gz_newer": True}
        else:
            st = {"tx": lines, "gz": None, "gz_newer": False}
        from_rows.append([name, st])
    return c09._files(from_rows)


def _join(row):
    def esc(v):
        return (v or "").replace("\\", "\\\\").replace("\n", "\\n").replace("@", "\\s")
    return "@".join(esc(v) for v in row)


def _oracle_table(c):
    pats = set()

    def walk(t):
        if t[0] == "cmp":
            if t[1] in ("~", "!~") and isinstance(t[3], str):
                pats.add(t[3])
        elif t[0] == "not":
            walk(t[1])
        else:
            for x in t[1]:
                walk(x)
    if c.get("where"):
        walk(c["where"])
    vals = set()
    for n, rows, gz in c["src"]:
        for row in rows:
            for v in row:
                if v:
                    vals.add(v)
    return [(p, v, bool(re.search(p, v))) for p in sorted(pats) for v in sorted(vals)]


def coq_case(c, o):
    if "exc" in o:
        raise ValueError("harness")
    if c["k"] == "dlines":
        if any(ord(ch) > 127 for l in c["lines"] for ch in l):
            return None
        fs = clist(c["fields"], lambda f: "{| f_name := %s; f_type := %s |}" % (cstr(f[0]), DT[f[1]]))
        return app("CDelim", cN(ord(c["delim"])), fs, clist(c["lines"], cstr),
                   "None" if "err" in o else "(Some %s)" % clist(o["lines"], cstr))
    if c["k"] == "lines":
        fs = clist(c["fields"], lambda f: "{| f_name := %s; f_type := %s |}" % (cstr(f[0]), DT[f[1]]))
        return app("CLines", fs, clist(c["lines"], cstr),
                   "None" if "err" in o else "(Some %s)" % clist(o["lines"], cstr))
    obs = clist(o["obs"], lambda e: "(%s, %s)" % (cstr(e[0]), c09._obsrel_c(e[1])))
    if c["k"] == "refresh":
        return app("CRefresh", _ksch(SCHEMA), _files(c["src"]), copt(c["new"], _ksch),
                   cbool(c["skeleton"]), cbool(c["gzip"]), cbool(o["ok"]), obs)
    dst = []
    if c["predst"]:
        dst = [["stale", {"tx": ["1@old"], "gz": None, "gz_newer": False}],
               ["parse", {"tx": ["9@9@9@9"], "gz": None, "gz_newer": False}]]
    return app("CMkprof", _ksch(SCHEMA), _files(c["src"]), c09._files(dst),
               clist(_oracle_table(c), lambda e: "(%s, %s, %s)" % (cstr(e[0]), cstr(e[1]), cbool(e[2]))),
               copt(c["new"], _ksch), copt(c["where"], c11._cond), cbool(c["full"]), cbool(c["skeleton"]),
               cbool(c["gzip"]), cbool(o["ok"]), obs)
