"""C07 — well-formedness tests and scope structure (delphin.mrs operations,
delphin.scope, DMRS.scopes)."""
from harness.coqlit import cstr, copt, clist, app, cbool
from harness.props import mrs_common as mc

ID = "C07"
COQ_TARGETS = ["Props/C07.vo", "Corr/C07.vo"]
TIE_A = []
CASE_TIMEOUT = 10
RULE = ("arbitrary MRSs with 0-5 predications (every EP has an ARG0; shared labels and intrinsic variables, "
        "quantifiers, dangling/cyclic/duplicate handle constraints, self-scoping arguments, disconnected "
        "parts) and generated well-formed MRSs; scope maps with random label equalities for conjoin; DMRSs "
        "with arbitrary EQ links and several equal nodes. Compared: predication ids, is_connected, the three "
        "IV tests, plausibly_scopes, is_well_formed, top label and scope map, descendants, representatives, "
        "conjoined classes, DMRS scopes and top scope. Non-trivial = at least two predications / one "
        "equality; distinct = canonical JSON.")
EXHAUSTIVE = {"quick": False, "thorough": False}
EXPLANATION = ("Connectivity is proved equal to reachability in the stated graph through a verified "
               "reachability library (Base/Graph.v); the other tests and the scope/conjoin structure are proved "
               "against their definitions. descendants/representatives are modelled with explicit fuel and tied "
               "by correspondence; that the fuel (one more than the number of predications) always suffices is "
               "a theorem (C07_descendants_total, C07_representatives_total).")
ASSUMPTIONS = [
    "variables are sort+digits over ASCII; variable.split is modelled on that class",
    "the start node of _bfs (first key of a dict built from a set) is arbitrary in Python; the model starts "
    "from the first predication — connectivity of an undirected graph does not depend on it",
    "conjoin picks labels and member order from Python sets: classes are compared as sets",
    "Python recursion depth is not modelled (structures are small)",
]
TRUSTED = []
LEVEL_TEXT = ("Proof (Coq, no axioms): is_connected is true exactly when every predication is reachable from "
              "the first in the graph of label sharing, shared intrinsic variables and arguments resolved through "
              "handle constraints (verified reachability = reflexive-transitive closure); the intrinsic-variable "
              "tests equal their definitions; is_well_formed is exactly the conjunction; the scope map holds "
              "under each label exactly the predications with that label in order; conjoin yields exactly the "
              "connected components of the label equalities with the members of their labels; the DMRS top scope "
              "exists and contains the top node itself; descendants and representatives terminate on every "
              "structure whatever cycles its labels and handle constraints form. All seven public functions plus descendants and "
              "representatives are tied to the code by kernel-checked correspondence on arbitrary structures.")
LEVEL_NOTE = ("Partial: 'every scope of a well-formed structure has a "
              "representative' is refuted (known finding F8). One defect (F7) repaired by a fix: commit.")
TECHNIQUE = "Coq proof over a verified reachability library + kernel-checked correspondence"
DESIGN_REF = "DESIGN.md section 6, C07"


def gen(rng, tier):
    cases = []
    n = 500 if tier == "quick" else 6000
    for i in range(n):
        if i % 4 == 0:
            m = mc.gen_wf_mrs(rng, shuffle_vars=rng.random() < 0.5, shuffle_rels=rng.random() < 0.5)
        else:
            m = mc.gen_any_mrs(rng)
        cases.append({"k": "mrs", "m": m})
    # F8-style mutual arguments
    cases.append({"k": "mrs", "m": {"top": "h0", "index": "e2", "rels": [
        {"pred": "_a_v_1", "label": "h1", "args": [["ARG0", "e2"], ["ARG1", "e3"]]},
        {"pred": "_b_v_1", "label": "h1", "args": [["ARG0", "e3"], ["ARG1", "e2"]]}],
        "hcons": [["h0", "qeq", "h1"]], "icons": [], "vars": []}})
    # ... and its second trigger: every member blocked by a predication below the other's scopal argument
    cases.append({"k": "mrs", "m": F8_FAMILY})
    for _ in range(n // 3):
        labels = ["h%d" % i for i in range(rng.randrange(1, 7))]
        scopes = [[l, ["%s_%d" % (l, j) for j in range(rng.randrange(0, 3))]] for l in labels]
        leqs = [[rng.choice(labels), rng.choice(labels)] for _ in range(rng.randrange(0, 6))]
        cases.append({"k": "conjoin", "scopes": scopes, "leqs": leqs})
    for _ in range(n // 3):
        k = rng.randrange(1, 6)
        ids = [10000 + i for i in range(k)]
        nodes = [[i, rng.choice(["_a_n_1", "_a_n_1", "_b_v_1"])] for i in ids]
        links = [[rng.choice(ids), rng.choice(ids), rng.choice(["ARG1", "MOD", "ARG2"]),
                  rng.choice(["EQ", "EQ", "NEQ", "H", "HEQ"])] for _ in range(rng.randrange(0, 6))]
        cases.append({"k": "dmrs", "nodes": nodes, "links": links, "top": rng.choice(ids + [None])})
    return cases


def nontrivial(c):
    if c["k"] == "mrs":
        return len(c["m"]["rels"]) >= 2
    if c["k"] == "conjoin":
        return len(c["leqs"]) >= 1
    return len(c["links"]) >= 1


def _try(f, *a):
    try:
        return {"v": f(*a)}
    except Exception as e:
        return {"exc": type(e).__name__}


def observe(c):
    from delphin import mrs, scope
    if c["k"] == "mrs":
        try:
            m = mc.build_mrs(c["m"])
        except ValueError:
            return {"build": "ValueError"}
        o = {"ids": [ep.id for ep in m.rels]}
        o["conn"] = _try(mrs.is_connected, m)
        o["complete"] = mrs.has_complete_intrinsic_variables(m)
        o["unique"] = mrs.has_unique_intrinsic_variables(m)
        o["ivp"] = mrs.has_intrinsic_variable_property(m)
        o["plaus"] = _try(mrs.plausibly_scopes, m)
        o["wf"] = _try(mrs.is_well_formed, m)
        top, scopes = m.scopes()
        o["top"] = top
        o["scopes"] = [[l, [ep.id for ep in eps]] for l, eps in scopes.items()]
        o["descs"] = _try(lambda: [[i, [p.id for p in ps]] for i, ps in scope.descendants(m).items()])
        o["reps"] = _try(lambda: [[l, [p.id for p in ps]] for l, ps in scope.representatives(m).items()])
        return o
    if c["k"] == "conjoin":
        res = scope.conjoin(dict((l, ms) for l, ms in c["scopes"]), [tuple(p) for p in c["leqs"]])
        return {"classes": [sorted(ms) + ["#" + str(n)] for n, ms in enumerate(res.values())],
                "members": [list(ms) for ms in res.values()]}
    d = _build_dmrs(c)
    top, scopes = d.scopes()
    return {"classes": [[n.id for n in ns] for ns in scopes.values()],
            "top": None if top is None else [n.id for n in scopes[top]]}


def _build_dmrs(c):
    from delphin.dmrs import DMRS, Node, Link
    return DMRS(c["top"], None, [Node(i, p, "x") for i, p in c["nodes"]],
                [Link(a, b, r, p) for a, b, r, p in c["links"]])


class UF:
    def __init__(self, xs):
        self.p = {x: x for x in xs}

    def find(self, x):
        while self.p[x] != x:
            self.p[x] = self.p[self.p[x]]
            x = self.p[x]
        return x

    def union(self, a, b):
        self.p[self.find(a)] = self.find(b)


def oracle(c):
    from delphin import mrs, scope
    if c["k"] == "mrs":
        try:
            m = mc.build_mrs(c["m"])
        except ValueError:
            return None
        rels = c["m"]["rels"]
        n = len(rels)
        uf = UF(range(n))
        hc = {}
        for hi, _, lo in c["m"]["hcons"]:
            hc[hi] = lo
        iv = [dict((a, b) for a, b in r["args"]).get("ARG0") for r in rels]
        for i in range(n):
            for j in range(n):
                if rels[i]["label"] == rels[j]["label"] or iv[i] == iv[j]:
                    uf.union(i, j)
                for role, val in rels[i]["args"]:
                    if role in ("ARG0", "CARG"):
                        continue
                    val = hc.get(val, val)
                    if val == rels[j]["label"] or val == iv[j]:
                        uf.union(i, j)
        want_conn = len(set(uf.find(i) for i in range(n))) <= 1
        if mrs.is_connected(m) != want_conn:
            return "is_connected = %r, graph connectivity is %r" % (mrs.is_connected(m), want_conn)
        nq = [iv[i] for i in range(n) if "RSTR" not in [a for a, _ in rels[i]["args"]] and iv[i] is not None]
        if mrs.has_unique_intrinsic_variables(m) != (len(set(nq)) == len(nq)):
            return "has_unique_intrinsic_variables disagrees with its definition"
        if not mrs.has_complete_intrinsic_variables(m):
            return "has_complete_intrinsic_variables is false although every EP has an ARG0"
        wf = mrs.is_well_formed(m)
        if wf != (mrs.is_connected(m) and mrs.has_intrinsic_variable_property(m) and mrs.plausibly_scopes(m)):
            return "is_well_formed is not the conjunction of its three criteria"
        top, scopes = m.scopes()
        flat = [ep for eps in scopes.values() for ep in eps]
        if sorted(id(e) for e in flat) != sorted(id(e) for e in m.rels):
            return "the scope map is not a partition of the predications"
        for l, eps in scopes.items():
            if [e for e in m.rels if e.label == l] != eps:
                return "scope %s does not hold the predications labelled %s in order" % (l, l)
        descs = scope.descendants(m)
        reps = scope.representatives(m)
        for l, ps in reps.items():
            for p in ps:
                if not any(p is q for q in scopes[l]):
                    return "a representative of %s is not a member of that scope" % l
            if wf and not ps:
                return "well-formed MRS but scope %s has no representative" % l
        return None
    if c["k"] == "conjoin":
        sc = dict((l, ms) for l, ms in c["scopes"])
        res = scope.conjoin(sc, [tuple(p) for p in c["leqs"]])
        uf = UF(list(sc))
        for a, b in c["leqs"]:
            uf.union(a, b)
        want = {}
        for l in sc:
            want.setdefault(uf.find(l), []).extend(sc[l])
        if sorted(sorted(v) for v in want.values()) != sorted(sorted(v) for v in res.values()):
            return "conjoined scopes %r are not the components %r" % (list(res.values()), list(want.values()))
        return None
    d = _build_dmrs(c)
    top, scopes = d.scopes()
    ids = [i for i, _ in c["nodes"]]
    uf = UF(ids)
    for a, b, r, p in c["links"]:
        if p == "EQ":
            uf.union(a, b)
    want = {}
    for i in ids:
        want.setdefault(uf.find(i), []).append(i)
    got = sorted(sorted(n.id for n in ns) for ns in scopes.values())
    if got != sorted(sorted(v) for v in want.values()):
        return "DMRS scopes %r are not the EQ components" % got
    if c["top"] is not None:
        if top is None or c["top"] not in [n.id for n in scopes[top]]:
            return "the top scope does not contain the top node %r" % c["top"]
    return None


def _mutual_cycle(m):
    """F8: within one label, a cycle of non-scopal arguments between members"""
    rels = m["rels"]
    iv = [dict((a, b) for a, b in r["args"]).get("ARG0") for r in rels]
    for l in set(r["label"] for r in rels):
        members = [i for i, r in enumerate(rels) if r["label"] == l]
        g = {i: [j for j in members if j != i and iv[j] in
                 [v for role, v in rels[i]["args"] if role not in ("ARG0", "CARG")]] for i in members}
        # every member has an outgoing edge inside the scope => a cycle exists
        if len(members) > 1 and all(g[i] for i in members):
            return True
    return False


def _all_members_blocked(m):
    """F8, second trigger: within one label every member takes as a non-scopal argument the intrinsic
    variable of another member or of a predication below the scope (reached through the scopal arguments
    of the members), so the representatives test rejects all of them"""
    rels = m["rels"]
    qeq = dict((h[0], h[2]) for h in m["hcons"])
    by_label = {}
    for r in rels:
        by_label.setdefault(r["label"], []).append(r)
    ivof = lambda r: dict((a, b) for a, b in r["args"]).get("ARG0")
    for l, members in by_label.items():
        if len(members) < 2:
            continue
        below, todo = [], [qeq.get(v, v) for r in members for role, v in r["args"] if v and v[0] == "h"]
        while todo:
            lb = todo.pop()
            for x in by_label.get(lb, []):
                if x not in below and x not in members:
                    below.append(x)
                    todo.extend(qeq.get(v, v) for role, v in x["args"] if v and v[0] == "h")
        blockers = [ivof(x) for x in below]
        def blocked(r):
            vals = [v for role, v in r["args"] if role not in ("ARG0", "CARG")]
            return any(v in blockers for v in vals) or \
                any(ivof(o) in vals for o in members if o is not r)
        if all(blocked(r) for r in members):
            return True
    return False


F8_FAMILY = {"top": "h0", "index": "e1", "rels": [
    {"pred": "_p_v_1", "label": "h1", "args": [["ARG0", "e1"], ["ARG1", "x5"], ["ARG2", "h2"]]},
    {"pred": "_q_v_1", "label": "h1", "args": [["ARG0", "e3"], ["ARG1", "x6"], ["ARG2", "h4"]]},
    {"pred": "_a_n_1", "label": "h7", "args": [["ARG0", "x6"]]},
    {"pred": "_b_n_1", "label": "h8", "args": [["ARG0", "x5"]]}],
    "hcons": [["h0", "qeq", "h1"], ["h2", "qeq", "h7"], ["h4", "qeq", "h8"]], "icons": [], "vars": []}


def known_match(case, failure, known):
    if case.get("k") == "mrs" and isinstance(failure, str) and "has no representative" in failure \
            and (_mutual_cycle(case["m"]) or _all_members_blocked(case["m"])):
        for e in known:
            if e["id"] == "F8":
                return "F8"
    return None


# ------------------------------------------------------------------ Coq side

def _ob(x, f):
    """{'v':..}|{'exc':..} -> option"""
    if "exc" in x:
        return "None"
    return "(Some %s)" % f(x["v"])


def _dm(l):
    return clist(l, lambda kv: "(%s, %s)" % (cstr(str(kv[0])), clist(kv[1], lambda i: cstr(str(i)))))


def coq_case(c, o):
    if "exc" in o:
        raise ValueError("harness")
    if c["k"] == "mrs":
        if "build" in o:
            return None
        if "exc" in o["plaus"]:
            return None
        obs = ("{| o_ids := (Some %s); o_conn := %s; o_complete := %s; o_unique := %s; o_ivp := %s; "
               "o_plaus := %s; o_wf := %s; o_top := %s; o_scopes := %s; o_descs := %s; o_reps := %s |}"
               % (clist(o["ids"], cstr), _ob(o["conn"], cbool), cbool(o["complete"]), cbool(o["unique"]),
                  cbool(o["ivp"]), cbool(o["plaus"]["v"]), _ob(o["wf"], cbool), copt(o["top"], cstr),
                  _dm(o["scopes"]), _ob(o["descs"], _dm), _ob(o["reps"], _dm)))
        return app("CMrs", mc.coq_mrs(c["m"]), obs)
    if c["k"] == "conjoin":
        return app("CConjoin", _dm(c["scopes"]),
                   clist(c["leqs"], lambda p: "(%s, %s)" % (cstr(p[0]), cstr(p[1]))),
                   clist(o["members"], lambda ms: clist(ms, cstr)))
    links = clist(c["links"], lambda l: "{| dl_start := %s; dl_end := %s; dl_role := %s; dl_post := %s |}"
                  % (cstr(str(l[0])), cstr(str(l[1])), cstr(l[2]), cstr(l[3])))
    return app("CDmrs", clist(c["nodes"], lambda n: cstr(str(n[0]))), links,
               copt(c["top"], lambda t: cstr(str(t))),
               clist(o["classes"], lambda ms: clist(ms, lambda i: cstr(str(i)))),
               copt(o["top"], lambda ms: clist(ms, lambda i: cstr(str(i)))))
