#!/bin/sh
# MANIFEST.setup_cmd: build the whole Coq development from clean (full .vo
# build, never -vos), after regenerating coq/Gen from /repo, and run the
# forbidden-keyword gate.
set -e
cd "$(dirname "$0")"
export PYTHONPATH="$(pwd)" PYTHONHASHSEED=0
# gate: nothing may declare an axiom or skip a proof
if grep -rnE '\b(Admitted|admit|Axiom|Axioms|Parameter|Parameters|Conjecture|Admit Obligations|Unset Guard Checking|bypass_check|Unset Positivity|Unset Universe Checking)\b' \
     --include='*.v' coq/Base coq/Model coq/Proofs coq/Props coq/Corr | grep -v '^\S*:[0-9]*:\s*(\*'; then
  echo "forbidden keyword in the Coq development" >&2
  exit 1
fi
/venv/bin/python - <<'PY'
from harness import core
print("Tie A:", core.regenerate())
PY
cd coq
find . -name '*.vo' -o -name '*.vok' -o -name '*.vos' -o -name '*.glob' -o -name '.*.aux' | xargs rm -f
rm -f Makefile Makefile.conf .Makefile.d
coq_makefile -f _CoqProject -o Makefile
timeout 3000 make -j16
echo "setup: Coq development built"
